import Helios.Model.Bytes
import Helios.Model.Hash
/-
The `http.ResponseWriter` world.

`Base` models the server side of net/http as far as an HTTP/1.1 client can observe it:
live header map; commit on the first `WriteHeader` ≥ 200 (snapshot of the headers, declared
Content-Length); implicit 200 on the first Write/Flush or at the end of the handler; no body
for HEAD / 1xx / 204 / 304; writes beyond a declared Content-Length are rejected; a short
body under a declared Content-Length is a framing error for the client.  This is *assumed*
stdlib behaviour, validated on every run against a real `http.Server` over loopback.

The wrappers Helios puts in front of it (`limitedResponseWriter`, `gzipResponseWriter`,
`statusRecorder`, the balancer's `responseWriter`) are transducers: each handler-side
operation becomes a list of operations on the writer underneath.

Bodies are lists of chunks `(length, seed)`; byte `i` of a chunk is `(seed + i) % 251`.
-/
namespace Helios.Http
open Helios

abbrev Chunk := Nat × Nat
abbrev Body := List Chunk

def Body.len (b : Body) : Nat := b.foldl (fun a c => a + c.1) 0

/-- literal texts of Helios' own error bodies (chunks with seed ≥ 1000) -/
def literal (seed : Nat) : List UInt8 :=
  if seed = 1000 then "Unauthorized\n".toUTF8.toList
  else if seed = 1001 then "Request body too large\n".toUTF8.toList
  else []

def chunkByte (c : Chunk) (i : Nat) : UInt8 :=
  if c.2 ≥ 1000 then (literal c.2).getD i 0 else UInt8.ofNat ((c.2 + i) % 251)

/-- FNV-1a over the bytes of a body, without materialising them -/
def chunkHash (h : UInt32) (c : Chunk) : UInt32 :=
  Nat.fold c.1 (fun i _ h => (h ^^^ (chunkByte c i).toUInt32) * Hash.fnvPrime) h

def Body.hash (b : Body) : UInt32 := b.foldl chunkHash Hash.fnvOffset

abbrev Hdr := List (String × String)

def Hdr.get (h : Hdr) (k : String) : String :=
  match h.find? (·.1 = k) with | some kv => kv.2 | none => ""

def Hdr.set (h : Hdr) (k v : String) : Hdr := (h.filter (·.1 ≠ k)) ++ [(k, v)]
def Hdr.del (h : Hdr) (k : String) : Hdr := h.filter (·.1 ≠ k)

/-- operations a handler performs on a ResponseWriter -/
inductive Op where
  | setH (k v : String)
  | delH (k : String)
  | wh (code : Nat)
  | w (c : Chunk)
  | wgz (b : Body)          -- the gzip encoding of `b`, written by the gzip plugin
  | fl
  deriving Repr, DecidableEq

def Op.isHeaderOp : Op → Bool
  | .setH _ _ | .delH _ => true
  | _ => false

/-- what the client may have received as body: plain chunks and gzip members -/
inductive Piece where
  | raw (c : Chunk)
  | gz (b : Body)
  deriving Repr, DecidableEq

/-- bytes a piece contributes to a declared Content-Length as the model counts them -/
def Piece.rawLen : Piece → Nat
  | .raw c => c.1
  | .gz _ => 0

structure Base where
  head      : Bool                       -- request method is HEAD
  hdr       : Hdr := []                  -- live header map
  status    : Option Nat := none         -- committed status
  snap      : Hdr := []                  -- headers as committed
  declared  : Option Nat := none         -- declared Content-Length at commit
  written   : Nat := 0                   -- bytes accepted by Write
  pieces    : List Piece := []           -- body as sent
  interim   : List Nat := []             -- 1xx responses sent
  gzOpaque  : Nat := 0                   -- gzip members written (their byte length is not modelled)
  interimSnap : List Hdr := []           -- header map sent with each 1xx response
  flushes   : List Nat := []             -- number of body pieces on the wire at each Flush
  deriving Repr, DecidableEq

def bodyAllowed (status : Nat) : Bool := !(status < 200 || status = 204 || status = 304)

def parseNat? (s : String) : Option Nat := if s.isEmpty then none else s.toNat?

def Base.commit (b : Base) (code : Nat) : Base :=
  match b.status with
  | some _ => b
  | none => { b with status := some code, snap := b.hdr, declared := parseNat? (b.hdr.get "Content-Length") }

def Base.step (b : Base) : Op → Base
  | .setH k v => { b with hdr := b.hdr.set k v }
  | .delH k => { b with hdr := b.hdr.del k }
  | .wh c =>
    if b.status.isSome then b
    else if c ≥ 100 ∧ c < 200 then { b with interim := b.interim ++ [c], interimSnap := b.interimSnap ++ [b.hdr] }
    else b.commit c
  | .w c =>
    let b := b.commit 200
    if c.1 = 0 then b
    else if !bodyAllowed (b.status.getD 200) then b
    else
      match b.declared with
      | some d => if b.written + c.1 > d then { b with written := b.written + c.1 }
                  else { b with written := b.written + c.1, pieces := if b.head then b.pieces else b.pieces ++ [.raw c] }
      | none => { b with written := b.written + c.1, pieces := if b.head then b.pieces else b.pieces ++ [.raw c] }
  | .wgz body =>
    let b := b.commit 200
    if !bodyAllowed (b.status.getD 200) then b
    else { b with gzOpaque := b.gzOpaque + 1, pieces := if b.head then b.pieces else b.pieces ++ [.gz body] }
  | .fl => let b := b.commit 200; { b with flushes := b.flushes ++ [b.pieces.length] }

def Base.run (b : Base) (ops : List Op) : Base := ops.foldl Base.step b

/-- end of the handler: implicit 200 -/
def Base.finish (b : Base) : Base := b.commit 200

/-- what the client sees -/
structure View where
  status  : Nat
  hdr     : Hdr                -- committed headers (as set by handlers; server-added ones excluded)
  pieces  : List Piece
  short   : Bool               -- declared Content-Length not reached: framing error at the client
  deriving Repr, DecidableEq

def Base.view (b : Base) : View :=
  let b := b.finish
  let st := b.status.getD 200
  -- net/http suppresses Content-Type / Content-Length on 304 and Content-Length on 204
  let hdr := if st = 304 then (b.snap.del "Content-Type").del "Content-Length"
             else if st = 204 then b.snap.del "Content-Length" else b.snap
  { status := st, hdr := hdr, pieces := b.pieces,
    short := match b.declared with
      | some d => bodyAllowed st && !b.head && b.gzOpaque = 0 &&
                  decide ((b.pieces.foldl (fun a p => a + p.rawLen) 0) < d)
      | none => false }

/-! ### size_limit's response writer (after the repair) -/

structure Lim where
  limit : Nat
  written : Nat := 0
  limitReached : Bool := false
  wroteHeader : Bool := false
  statusCode : Nat := 0
  deriving Repr, DecidableEq

def Lim.ensure (l : Lim) : List Op × Lim :=
  if l.wroteHeader then ([], l)
  else
    let c := if l.statusCode = 0 then 200 else l.statusCode
    ([.wh c], { l with wroteHeader := true, statusCode := c })

/-- byte length an op would add to the response body as counted by the plugin;
    a gzip member's length is not known to the model: `gzLen` supplies it -/
def Lim.step (gzLen : Body → Nat) (l : Lim) : Op → List Op × Lim
  | .setH k v => ([.setH k v], l)
  | .delH k => ([.delH k], l)
  | .wh c =>
    if l.wroteHeader then ([], l)
    else if c ≥ 100 ∧ c < 200 then ([.wh c], l)
    else ([], { l with statusCode := c })
  | .fl => let e := l.ensure; (e.1 ++ [.fl], e.2)
  | op =>
    let n := match op with | .w c => c.1 | .wgz b => gzLen b | _ => 0
    if l.limitReached then ([], l)
    else if l.written + n > l.limit then
      if l.wroteHeader then ([], { l with limitReached := true })
      else ([.wh 413], { l with limitReached := true, statusCode := 413, wroteHeader := true })
    else
      let e := l.ensure
      (e.1 ++ [op], { e.2 with written := e.2.written + n })

/-- after the wrapped handler returned -/
def Lim.finish (l : Lim) : List Op × Lim :=
  if l.statusCode ≠ 0 then l.ensure else ([], l)

/-! ### the gzip plugin's response writer (after the repair) -/

structure Gz where
  minSize : Nat
  types : List String
  cap : Nat                                -- MaxCompressionBufferSize
  statusCode : Nat := 0
  wroteHeader : Bool := false
  buf : Body := []
  bufferExceeded : Bool := false
  headerSent : Bool := false
  deriving Repr, DecidableEq

def Gz.commit (g : Gz) : List Op × Gz :=
  if g.headerSent then ([], g)
  else
    let c := if g.wroteHeader then g.statusCode else 200
    ([.wh c], { g with headerSent := true, wroteHeader := true, statusCode := c })

/-- the plugin reads the live header map of the response; `hdr` is that map at this moment -/
def Gz.step (g : Gz) : Op → List Op × Gz
  | .setH k v => ([.setH k v], g)
  | .delH k => ([.delH k], g)
  | .wh c =>
    if g.wroteHeader then ([], g)
    else if c ≥ 100 ∧ c < 200 then ([.wh c], g)
    else ([], { g with statusCode := c, wroteHeader := true })
  | .fl => if g.bufferExceeded then ([.fl], g) else ([], g)
  | .w c =>
    if g.bufferExceeded || decide (g.buf.len + c.1 > g.cap) then
      if g.bufferExceeded then ([.w c], g)
      else
        let e := g.commit
        (e.1 ++ (g.buf.filter (·.1 > 0)).map .w ++ [.w c], { e.2 with bufferExceeded := true, buf := [] })
    else ([], { g with buf := g.buf ++ [c] })
  | .wgz b =>
    -- a gzip member written by a gzip plugin further in (stacked configuration): the bytes are
    -- buffered like any write and, being already encoded, delivered as they are by `Finish`;
    -- the model delivers them at once, in the same order
    if g.bufferExceeded then ([.wgz b], g)
    else
      let e := g.commit
      (e.1 ++ (g.buf.filter (·.1 > 0)).map .w ++ [.wgz b], { e.2 with bufferExceeded := true, buf := [] })

def hasPrefix (s p : String) : Bool := p.toList.isPrefixOf s.toList

def matchesType (ct : String) (types : List String) : Bool := types.any (fun t => hasPrefix ct t)

/-- `strconv.Atoi` -/
def parseInt? (s : String) : Option Int := if s.isEmpty then none else s.toInt?

/-- the decision of `Finish`: compress iff the body is non-empty, not already encoded, a
declared Content-Length is not below `min_size`, the body is at least `min_size` bytes and
the Content-Type has a configured prefix -/
def Gz.shouldCompress (g : Gz) (hdr : Hdr) : Bool :=
  !(g.buf.len = 0) && hdr.get "Content-Encoding" == "" &&
  !(match parseInt? (hdr.get "Content-Length") with | some cl => decide (cl < (g.minSize : Int)) | none => false) &&
  !(decide (g.buf.len < g.minSize)) && matchesType (hdr.get "Content-Type") g.types

/-- `Finish`, given the live header map at that moment -/
def Gz.finish (g : Gz) (hdr : Hdr) : List Op × Gz :=
  if g.bufferExceeded then ([], g)
  else
    let e := g.commit
    if g.shouldCompress hdr then
      ([.setH "Content-Encoding" "gzip", .delH "Content-Length"] ++ e.1 ++ [.wgz g.buf], e.2)
    else (e.1 ++ (g.buf.filter (·.1 > 0)).map .w, e.2)

/-- `containsGzip(Accept-Encoding)`: comma separated, each part trimmed, exactly "gzip" -/
def acceptsGzip (ae : String) : Bool :=
  (ae.splitOn ",").any (fun p => p.trimAscii.toString == "gzip")

/-! ### transparent recorders -/

/-- the logging plugin's `statusRecorder`: forwards everything, writing an explicit 200
    before a first Write without WriteHeader -/
structure Rec where
  wroteHeader : Bool := false
  deriving Repr, DecidableEq

def Rec.step (r : Rec) : Op → List Op × Rec
  | .wh c => ([.wh c], { r with wroteHeader := true })
  | .w c => if r.wroteHeader then ([.w c], r) else ([.wh 200, .w c], { r with wroteHeader := true })
  | .wgz b => if r.wroteHeader then ([.wgz b], r) else ([.wh 200, .wgz b], { r with wroteHeader := true })
  | op => ([op], r)

end Helios.Http

namespace Helios.Http
open Helios

/-! ### the plugin chain -/

inductive Plugin where
  | sizeLimit (maxReq maxResp : Nat)
  | gzip (minSize : Nat) (types : List String)
  | logging
  | headers (set reqSet : Hdr)
  | auth (key : String)
  | probe (id : Nat)                       -- tracing plugin registered by the harness (C17)
  deriving Repr, DecidableEq

structure Request where
  method  : String
  hdr     : Hdr                   -- request headers
  bodyLen : Nat                   -- bytes the client sends
  declared : Option Nat           -- r.ContentLength (none = unknown / chunked)
  bodyCap : Option Nat := none    -- tightest MaxBytesReader installed by outer plugins
  deriving Repr, DecidableEq

/-- literal bodies of Helios' own error answers are chunks with seed ≥ 1000 -/
def litUnauthorized : Chunk := (13, 1000)      -- "Unauthorized\n"
def litTooLarge : Chunk := (23, 1001)          -- "Request body too large\n"

/-- `http.Error(w, msg, code)` -/
def httpError (code : Nat) (msg : Chunk) : List Op :=
  [.delH "Content-Length", .setH "Content-Type" "text/plain; charset=utf-8",
   .setH "X-Content-Type-Options" "nosniff", .wh code, .w msg]

def applyHdr (h : Hdr) : Op → Hdr
  | .setH k v => h.set k v
  | .delH k => h.del k
  | _ => h

/-- run a transducer over the ops coming from above, tracking the live header map below -/
def transLim (gzLen : Body → Nat) : Lim → List Op → List Op × Lim
  | l, [] => ([], l)
  | l, op :: ops =>
    let r := l.step gzLen op
    let rs := transLim gzLen r.2 ops
    (r.1 ++ rs.1, rs.2)

def transGz : Gz → Hdr → List Op → List Op × Gz × Hdr
  | g, h, [] => ([], g, h)
  | g, h, op :: ops =>
    let r := g.step op
    let h' := r.1.foldl applyHdr h
    let rs := transGz r.2 h' ops
    (r.1 ++ rs.1, rs.2)

def transRec : Rec → List Op → List Op
  | _, [] => []
  | r, op :: ops => let s := r.step op; s.1 ++ transRec s.2 ops

def gzCap : Nat := 10485760

/-- `r.ContentLength > max_request_body` -/
def tooLarge (req : Request) (mr : Nat) : Bool :=
  match req.declared with
  | some d => decide (d > mr)
  | none => false

/-- trace events of the probe plugin: enter / exit -/
inductive Ev where
  | enter (id : Nat) | exit (id : Nat) | inner
  deriving Repr, DecidableEq

/-- the chain `[p₁ … pₖ]` (first listed outermost) around `inner`: the operations that reach
the writer underneath, the entry/exit trace, and whether the innermost handler ran -/
def serve (gzLen : Body → Nat) : List Plugin → Request → Hdr → (Request → List Op) → List Op × List Ev
  | [], req, _, inner => (inner req, [.inner])
  | p :: ps, req, h, inner =>
    match p with
    | .auth key =>
      if req.hdr.get "X-Api-Key" ≠ key then (httpError 401 litUnauthorized, [])
      else serve gzLen ps req h inner
    | .headers set rset =>
      let pre := set.map (fun kv => Op.setH kv.1 kv.2)
      let req' := { req with hdr := rset.foldl (fun a kv => a.set kv.1 kv.2) req.hdr }
      let r := serve gzLen ps req' (pre.foldl applyHdr h) inner
      (pre ++ r.1, r.2)
    | .logging => let r := serve gzLen ps req h inner; (transRec {} r.1, r.2)
    | .probe id => let r := serve gzLen ps req h inner; (r.1, [.enter id] ++ r.2 ++ [.exit id])
    | .sizeLimit mr mp =>
      if tooLarge req mr then (httpError 413 litTooLarge, [])
      else
        let cap := match req.bodyCap with | some c => min c mr | none => mr
        let r := serve gzLen ps { req with bodyCap := some cap } h inner
        let t := transLim gzLen { limit := mp } r.1
        (t.1 ++ t.2.finish.1, r.2)
    | .gzip ms types =>
      if !acceptsGzip (req.hdr.get "Accept-Encoding") then serve gzLen ps req h inner
      else
        let r := serve gzLen ps req h inner
        let t := transGz { minSize := ms, types := types, cap := gzCap } h r.1
        (t.1 ++ (t.2.1.finish t.2.2).1, r.2)

/-- what the innermost handler of the harness does: report how much request body it could
read, then perform the scripted response operations -/
def scripted (ops : List Op) (req : Request) : List Op :=
  let got := match req.bodyCap with | some c => min c req.bodyLen | none => req.bodyLen
  let err := match req.bodyCap with | some c => decide (req.bodyLen > c) | none => false
  [.setH "X-Got" (toString got ++ (if err then "!" else ""))] ++ ops

/-- the whole exchange as the client sees it -/
def exchange (gzLen : Body → Nat) (chain : List Plugin) (req : Request) (ops : List Op) : View × List Ev :=
  let r := serve gzLen chain req [] (scripted ops)
  ((Base.run { head := req.method == "HEAD" } r.1).view, r.2)

/-- body operations of a response: writes and flushes -/
def bodyOnly (ops : List Op) : Prop := ∀ o ∈ ops, (∃ c, o = .w c) ∨ o = .fl

/-- header-map operations only -/
def headerOnly (ops : List Op) : Prop := ∀ o ∈ ops, o.isHeaderOp = true

end Helios.Http
