import Helios.Model.Bytes
/-
Client-address extraction as the strategies do it (ip_hash.go / ip_hash_consistent.go):
  X-Forwarded-For, else X-Real-IP, else host part of RemoteAddr (net.SplitHostPort,
  raw RemoteAddr if that fails); then the part before the first comma, untrimmed.
`net.SplitHostPort` is modelled byte for byte after the Go standard library source.
-/
namespace Helios.Addr
open Helios Helios.Bytes

/-- `net.SplitHostPort`, host component only; `none` = the Go function returns an error -/
def splitHost (hp : Bytes) : Option Bytes :=
  match lastIndexOf colon hp with
  | none => none                                   -- missing port
  | some i =>
    match hp with
    | [] => none
    | c0 :: _ =>
      if c0 = lbrack then
        match indexOf rbrack hp with
        | none => none                             -- missing ']'
        | some e =>
          if e + 1 = hp.length then none           -- missing port
          else if e + 1 = i then
            let host := (hp.drop 1).take (e - 1)
            if contains lbrack (hp.drop 1) then none        -- unexpected '['
            else if contains rbrack (hp.drop (e + 1)) then none  -- unexpected ']'
            else some host
          else none                                -- too many colons / missing port
      else
        let host := hp.take i
        if contains colon host then none           -- too many colons
        else if contains lbrack hp then none
        else if contains rbrack hp then none
        else some host

/-- the text before the first comma (`strings.Split(s, ",")[0]`); whole string if none -/
def firstField (s : Bytes) : Bytes :=
  match indexOf comma s with
  | some i => s.take i
  | none => s

structure Req where
  xff : Bytes        -- r.Header.Get("X-Forwarded-For")  ([] when absent)
  xri : Bytes        -- r.Header.Get("X-Real-IP")
  remote : Bytes     -- r.RemoteAddr
  deriving Repr, DecidableEq

/-- the string the hash strategies feed to FNV-1a -/
def strategyKey (r : Req) : Bytes :=
  let s :=
    if r.xff ≠ [] then r.xff
    else if r.xri ≠ [] then r.xri
    else match splitHost r.remote with
      | some h => h
      | none => r.remote
  firstField s

end Helios.Addr
