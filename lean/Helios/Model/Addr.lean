import Helios.Model.Bytes
/-
Client-address extraction as the strategies do it (ip_hash.go / ip_hash_consistent.go):
  X-Forwarded-For, else X-Real-IP, else host part of RemoteAddr (net.SplitHostPort,
  raw RemoteAddr if that fails); then the part before the first comma, untrimmed.
`net.SplitHostPort` is modelled byte for byte after the Go standard library source.
-/
namespace Helios.Addr
open Helios Helios.Bytes

/-- `net.SplitHostPort`, host component only; `none` = the Go function returns an error -/
def splitHost (hp : Bytes) : Option Bytes :=
  match lastIndexOf colon hp with
  | none => none                                   -- missing port
  | some i =>
    match hp with
    | [] => none
    | c0 :: _ =>
      if c0 = lbrack then
        match indexOf rbrack hp with
        | none => none                             -- missing ']'
        | some e =>
          if e + 1 = hp.length then none           -- missing port
          else if e + 1 = i then
            let host := (hp.drop 1).take (e - 1)
            if contains lbrack (hp.drop 1) then none        -- unexpected '['
            else if contains rbrack (hp.drop (e + 1)) then none  -- unexpected ']'
            else some host
          else none                                -- too many colons / missing port
      else
        let host := hp.take i
        if contains colon host then none           -- too many colons
        else if contains lbrack hp then none
        else if contains rbrack hp then none
        else some host

/-- the text before the first comma (`strings.Split(s, ",")[0]`); whole string if none -/
def firstField (s : Bytes) : Bytes :=
  match indexOf comma s with
  | some i => s.take i
  | none => s

structure Req where
  xff : Bytes        -- r.Header.Get("X-Forwarded-For")  ([] when absent)
  xri : Bytes        -- r.Header.Get("X-Real-IP")
  remote : Bytes     -- r.RemoteAddr
  deriving Repr, DecidableEq

/-- the string the hash strategies feed to FNV-1a -/
def strategyKey (r : Req) : Bytes :=
  let s :=
    if r.xff ≠ [] then r.xff
    else if r.xri ≠ [] then r.xri
    else match splitHost r.remote with
      | some h => h
      | none => r.remote
  firstField s

end Helios.Addr

namespace Helios.Addr
open Helios Helios.Bytes

/-- length of a Unicode White_Space code point encoded at the head of `s` (0 = none), as
`unicode.IsSpace` / `strings.TrimSpace` see it: ASCII \t \n \v \f \r space, U+0085, U+00A0,
U+1680, U+2000–U+200A, U+2028, U+2029, U+202F, U+205F, U+3000 -/
def spaceLenHead : Bytes → Nat
  | 0x09 :: _ | 0x0A :: _ | 0x0B :: _ | 0x0C :: _ | 0x0D :: _ | 0x20 :: _ => 1
  | 0xC2 :: 0x85 :: _ | 0xC2 :: 0xA0 :: _ => 2
  | 0xE1 :: 0x9A :: 0x80 :: _ => 3
  | 0xE2 :: 0x80 :: b :: _ => if (0x80 ≤ b ∧ b ≤ 0x8A) ∨ b = 0xA8 ∨ b = 0xA9 ∨ b = 0xAF then 3 else 0
  | 0xE2 :: 0x81 :: 0x9F :: _ => 3
  | 0xE3 :: 0x80 :: 0x80 :: _ => 3
  | _ => 0

def trimLeft : Nat → Bytes → Bytes
  | 0, s => s
  | fuel+1, s => match spaceLenHead s with
    | 0 => s
    | n => trimLeft fuel (s.drop n)

/-- the same test on the reversed string (bytes of the last code point, reversed) -/
def spaceLenTailRev : Bytes → Nat
  | 0x09 :: _ | 0x0A :: _ | 0x0B :: _ | 0x0C :: _ | 0x0D :: _ | 0x20 :: _ => 1
  | 0x85 :: 0xC2 :: _ | 0xA0 :: 0xC2 :: _ => 2
  | 0x80 :: 0x9A :: 0xE1 :: _ => 3
  | 0x9F :: 0x81 :: 0xE2 :: _ => 3
  | 0x80 :: 0x80 :: 0xE3 :: _ => 3
  | b :: 0x80 :: 0xE2 :: _ => if (0x80 ≤ b ∧ b ≤ 0x8A) ∨ b = 0xA8 ∨ b = 0xA9 ∨ b = 0xAF then 3 else 0
  | _ => 0

def trimRightRev : Nat → Bytes → Bytes
  | 0, s => s
  | fuel+1, s => match spaceLenTailRev s with
    | 0 => s
    | n => trimRightRev fuel (s.drop n)

/-- `strings.TrimSpace` on a byte string -/
def trimSpace (s : Bytes) : Bytes :=
  let l := trimLeft s.length s
  (trimRightRev l.length l.reverse).reverse

/-- `utils.GetClientIP`: X-Forwarded-For (text before the first comma if that comma is not
at position 0, trimmed), else X-Real-IP as is, else host of RemoteAddr, else RemoteAddr -/
def clientIP (r : Req) : Bytes :=
  if r.xff ≠ [] then
    match indexOf comma r.xff with
    | some (i+1) => trimSpace (r.xff.take (i+1))
    | _ => trimSpace r.xff
  else if r.xri ≠ [] then r.xri
  else match splitHost r.remote with
    | some h => h
    | none => r.remote

end Helios.Addr
