/-
Model of internal/config/config.go (`Config.Validate`, after the repairs): the validator
walks the sections in a fixed order and returns the first violated rule.
-/
namespace Helios.Cfg

structure Backend where
  name : String
  address : String
  weight : Int
  deriving Repr, DecidableEq

structure Config where
  backends : List Backend
  port : Int
  tlsOn : Bool
  tlsCert : String
  tlsKey : String
  tRead : Int
  tWrite : Int
  tIdle : Int
  tHandler : Int
  tShutdown : Int
  tDial : Int
  tBRead : Int
  tBIdle : Int
  strategy : String
  wsOn : Bool
  wsMaxIdle : Int
  wsMaxActive : Int
  wsIdleTimeout : Int
  actOn : Bool
  actInterval : Int
  actTimeout : Int
  actPath : String
  pasOn : Bool
  pasThreshold : Int
  pasTimeout : Int
  rlOn : Bool
  rlMax : Int
  rlRefill : Int
  cbOn : Bool
  cbMax : Int
  cbInterval : Int
  cbTimeout : Int
  cbFailure : Int
  cbSuccess : Int
  metOn : Bool
  metPort : Int
  metPath : String
  admOn : Bool
  admPort : Int
  logLevel : String
  logFormat : String
  deriving Repr, DecidableEq

def strategies : List String :=
  ["round_robin", "least_connections", "weighted_round_robin", "ip_hash", "ip_hash_consistent"]
def logLevels : List String := ["debug", "info", "warn", "error", "fatal"]
def logFormats : List String := ["json", "console", "text"]

def portBad (p : Int) : Bool := p ≤ 0 || p > 65535

/-- per-backend rules, in the order the validator applies them -/
def backendRules : List Backend → List (Bool × Nat)
  | [] => []
  | b :: bs => [(b.name == "", 2), (b.address == "", 3), (decide (b.weight < 0), 4)] ++ backendRules bs

def rServer (c : Config) : List (Bool × Nat) :=
  [(portBad c.port, 5), (c.tlsOn && c.tlsCert == "", 6), (c.tlsOn && c.tlsKey == "", 7)]
def rTimeouts (c : Config) : List (Bool × Nat) :=
  [(decide (c.tRead < 0), 8), (decide (c.tWrite < 0), 9), (decide (c.tIdle < 0), 10), (decide (c.tHandler < 0), 11),
   (decide (c.tShutdown < 0), 12), (decide (c.tDial < 0), 13), (decide (c.tBRead < 0), 14), (decide (c.tBIdle < 0), 15)]
def rLB (c : Config) : List (Bool × Nat) :=
  [(c.strategy != "" && !strategies.contains c.strategy, 16),
   (c.wsOn && decide (c.wsMaxIdle < 0), 17), (c.wsOn && decide (c.wsMaxActive < 0), 18),
   (c.wsOn && decide (c.wsMaxActive > 0) && decide (c.wsMaxIdle > c.wsMaxActive), 19),
   (c.wsOn && decide (c.wsIdleTimeout < 0), 20)]
def rHealth (c : Config) : List (Bool × Nat) :=
  [(c.actOn && decide (c.actInterval ≤ 0), 21), (c.actOn && decide (c.actTimeout ≤ 0), 22),
   (c.actOn && decide (c.actTimeout ≥ c.actInterval), 23), (c.actOn && c.actPath == "", 24),
   (c.pasOn && decide (c.pasThreshold ≤ 0), 25), (c.pasOn && decide (c.pasTimeout ≤ 0), 26)]
def rRL (c : Config) : List (Bool × Nat) :=
  [(c.rlOn && decide (c.rlMax ≤ 0), 27), (c.rlOn && decide (c.rlRefill ≤ 0), 28)]
def rCB (c : Config) : List (Bool × Nat) :=
  [(c.cbOn && decide (c.cbFailure ≤ 0), 29), (c.cbOn && decide (c.cbSuccess ≤ 0), 30),
   (c.cbOn && decide (c.cbTimeout ≤ 0), 31), (c.cbOn && decide (c.cbInterval ≤ 0), 32),
   (c.cbOn && decide (c.cbMax < 0), 33), (c.cbOn && decide (c.cbMax > 0) && decide (c.cbSuccess > c.cbMax), 34)]
/-- a ServeMux pattern the metrics server can register next to its own `/health` -/
def startsSlash (s : String) : Bool := s.toList.head? == some '/'

def rMetrics (c : Config) : List (Bool × Nat) :=
  [(c.metOn && portBad c.metPort, 35), (c.metOn && c.metPath == "", 36),
   (c.metOn && !startsSlash c.metPath, 58), (c.metOn && c.metPath == "/health", 59)]
def rAdmin (c : Config) : List (Bool × Nat) := [(c.admOn && portBad c.admPort, 37)]
def rLog (c : Config) : List (Bool × Nat) :=
  [(c.logLevel != "" && !logLevels.contains c.logLevel, 38),
   (c.logFormat != "" && !logFormats.contains c.logFormat, 39)]

/-- the largest number of seconds a `time.Duration` holds (`math.MaxInt64 / int64(time.Second)`) and
the largest `uint32`: beyond them the conversions applied to accepted values would wrap -/
def maxSeconds : Int := 9223372036
def maxU32 : Int := 4294967295
def tooLong (v : Int) : Bool := decide (v > maxSeconds)

/-- `validateRanges` (last): seconds of the always-used server timeouts and of every enabled
feature, then the breaker counts -/
def rRanges (c : Config) : List (Bool × Nat) :=
  [(tooLong c.tRead, 40), (tooLong c.tWrite, 41), (tooLong c.tIdle, 42), (tooLong c.tHandler, 43),
   (tooLong c.tShutdown, 44), (tooLong c.tDial, 45), (tooLong c.tBRead, 46), (tooLong c.tBIdle, 47),
   (c.wsOn && tooLong c.wsIdleTimeout, 48), (c.actOn && tooLong c.actInterval, 49), (c.actOn && tooLong c.actTimeout, 50),
   (c.pasOn && tooLong c.pasTimeout, 51), (c.rlOn && tooLong c.rlRefill, 52),
   (c.cbOn && tooLong c.cbInterval, 53), (c.cbOn && tooLong c.cbTimeout, 54),
   (c.cbOn && decide (c.cbMax > maxU32), 55), (c.cbOn && decide (c.cbFailure > maxU32), 56),
   (c.cbOn && decide (c.cbSuccess > maxU32), 57)]

/-- every rule as (violated?, rule id), in validation order -/
def rules (c : Config) : List (Bool × Nat) :=
  [(c.backends.isEmpty, 1)] ++ backendRules c.backends ++ rServer c ++ rTimeouts c ++ rLB c ++ rHealth c ++
  rRL c ++ rCB c ++ rMetrics c ++ rAdmin c ++ rLog c ++ rRanges c

/-- `Validate`: the id of the first violated rule -/
def validate (c : Config) : Option Nat := ((rules c).find? (·.1)).map (·.2)

/-! the documented constraints, stated declaratively, section by section -/
def DBackends (c : Config) : Prop := c.backends ≠ [] ∧ ∀ b ∈ c.backends, b.name ≠ "" ∧ b.address ≠ "" ∧ 0 ≤ b.weight
def DServer (c : Config) : Prop := (1 ≤ c.port ∧ c.port ≤ 65535) ∧ (c.tlsOn = true → c.tlsCert ≠ "" ∧ c.tlsKey ≠ "")
def DTimeouts (c : Config) : Prop :=
  0 ≤ c.tRead ∧ 0 ≤ c.tWrite ∧ 0 ≤ c.tIdle ∧ 0 ≤ c.tHandler ∧ 0 ≤ c.tShutdown ∧ 0 ≤ c.tDial ∧ 0 ≤ c.tBRead ∧ 0 ≤ c.tBIdle
def DLB (c : Config) : Prop :=
  (c.strategy = "" ∨ c.strategy ∈ strategies) ∧
  (c.wsOn = true → 0 ≤ c.wsMaxIdle ∧ 0 ≤ c.wsMaxActive ∧ (0 < c.wsMaxActive → c.wsMaxIdle ≤ c.wsMaxActive) ∧ 0 ≤ c.wsIdleTimeout)
def DHealth (c : Config) : Prop :=
  (c.actOn = true → 0 < c.actInterval ∧ 0 < c.actTimeout ∧ c.actTimeout < c.actInterval ∧ c.actPath ≠ "") ∧
  (c.pasOn = true → 0 < c.pasThreshold ∧ 0 < c.pasTimeout)
def DRL (c : Config) : Prop := c.rlOn = true → 0 < c.rlMax ∧ 0 < c.rlRefill
def DCB (c : Config) : Prop :=
  c.cbOn = true → 0 < c.cbFailure ∧ 0 < c.cbSuccess ∧ 0 < c.cbTimeout ∧ 0 < c.cbInterval ∧ 0 ≤ c.cbMax ∧
    (0 < c.cbMax → c.cbSuccess ≤ c.cbMax)
def DMetrics (c : Config) : Prop :=
  c.metOn = true → (1 ≤ c.metPort ∧ c.metPort ≤ 65535) ∧ c.metPath ≠ "" ∧ startsSlash c.metPath = true ∧ c.metPath ≠ "/health"
def DAdmin (c : Config) : Prop := c.admOn = true → 1 ≤ c.admPort ∧ c.admPort ≤ 65535
def DLog (c : Config) : Prop :=
  (c.logLevel = "" ∨ c.logLevel ∈ logLevels) ∧ (c.logFormat = "" ∨ c.logFormat ∈ logFormats)

/-- every duration fits a `time.Duration`, every breaker count a `uint32` -/
def DRanges (c : Config) : Prop :=
  (c.tRead ≤ maxSeconds ∧ c.tWrite ≤ maxSeconds ∧ c.tIdle ≤ maxSeconds ∧ c.tHandler ≤ maxSeconds ∧
   c.tShutdown ≤ maxSeconds ∧ c.tDial ≤ maxSeconds ∧ c.tBRead ≤ maxSeconds ∧ c.tBIdle ≤ maxSeconds) ∧
  (c.wsOn = true → c.wsIdleTimeout ≤ maxSeconds) ∧
  (c.actOn = true → c.actInterval ≤ maxSeconds ∧ c.actTimeout ≤ maxSeconds) ∧
  (c.pasOn = true → c.pasTimeout ≤ maxSeconds) ∧ (c.rlOn = true → c.rlRefill ≤ maxSeconds) ∧
  (c.cbOn = true → c.cbInterval ≤ maxSeconds ∧ c.cbTimeout ≤ maxSeconds ∧
     c.cbMax ≤ maxU32 ∧ c.cbFailure ≤ maxU32 ∧ c.cbSuccess ≤ maxU32)

def Documented (c : Config) : Prop :=
  DBackends c ∧ DServer c ∧ DTimeouts c ∧ DLB c ∧ DHealth c ∧ DRL c ∧ DCB c ∧ DMetrics c ∧ DAdmin c ∧ DLog c ∧
  DRanges c

end Helios.Cfg
