import Helios.Model.Addr
import Helios.Model.Hash
/-
The five `NextBackend` functions of internal/loadbalancer/*.go over a pool given as the
strategy's backend slice (in slice order), after the "eligible(now)" repair:

  eligible(now) = IsHealthy || (!UnhealthyUntil.IsZero() && now.After(UnhealthyUntil))

round_robin          : up to n times: cur++ ; idx = cur % n ; return the first eligible
least_connections    : first eligible backend with the strictly smallest gauge (< MaxInt32)
weighted_round_robin : nginx smooth WRR over the eligible backends, first maximum wins
ip_hash              : FNV-1a(key) % |eligible| into the eligible sub-list
ip_hash_consistent   : jumpHash(FNV-1a(key), |eligible|) into the eligible sub-list
-/
namespace Helios.LB
open Helios

structure Backend where
  name    : String
  weight  : Nat              -- already normalised (< 1 → 1) by AddBackend
  healthy : Bool             -- IsHealthy
  until_  : Option Nat       -- UnhealthyUntil; none = the zero time.Time
  conns   : Int              -- ActiveConnections gauge
  cw      : Int              -- smooth-WRR current weight (weightedBackend.currentWeight)
  deriving Repr, DecidableEq

/-- may be offered traffic at `now` (`Backend.eligible`) -/
def Backend.eligible (b : Backend) (now : Nat) : Bool :=
  b.healthy || (match b.until_ with | some u => decide (u < now) | none => false)

/-- inside an unhealthy window at `now`: ejected and the window has not elapsed -/
def Backend.inWindow (b : Backend) (now : Nat) : Bool :=
  !b.healthy && (match b.until_ with | some u => decide (now ≤ u) | none => true)

inductive Kind where
  | rr | lc | wrr | iphash | iphashc
  deriving Repr, DecidableEq

def two64 : Nat := 18446744073709551616
def maxInt32 : Int := 2147483647

/-! ### round robin -/

/-- `fuel` further attempts; returns the advanced counter and the chosen index -/
def rrLoop (pool : List Backend) (now : Nat) : Nat → Nat → Nat × Option Nat
  | 0, cur => (cur, none)
  | fuel+1, cur =>
    let cur' := (cur + 1) % two64
    let idx := cur' % pool.length
    match pool[idx]? with
    | some b => if b.eligible now then (cur', some idx) else rrLoop pool now fuel cur'
    | none => (cur', none)

def rrPick (pool : List Backend) (now : Nat) (cur : Nat) : Nat × Option Nat :=
  if pool.length = 0 then (cur, none) else rrLoop pool now pool.length cur

/-! ### least connections -/

/-- scan state: (current minimum, selected index) -/
def lcScan (now : Nat) : List Backend → Nat → Int → Option Nat → Option Nat
  | [], _, _, sel => sel
  | b :: bs, i, mn, sel =>
    if b.eligible now && decide (b.conns < mn) then lcScan now bs (i+1) b.conns (some i)
    else lcScan now bs (i+1) mn sel

def lcPick (pool : List Backend) (now : Nat) : Option Nat :=
  lcScan now pool 0 maxInt32 none

/-! ### smooth weighted round robin -/

/-- total weight of the eligible backends -/
def wrrTotal (pool : List Backend) (now : Nat) : Nat :=
  (pool.filter (·.eligible now)).foldl (fun a b => a + b.weight) 0

/-- add each eligible backend's weight to its current weight -/
def wrrBump (pool : List Backend) (now : Nat) : List Backend :=
  pool.map (fun b => if b.eligible now then { b with cw := b.cw + b.weight } else b)

/-- first eligible backend with the strictly largest current weight -/
def wrrBest (now : Nat) : List Backend → Nat → Option (Nat × Int) → Option (Nat × Int)
  | [], _, best => best
  | b :: bs, i, best =>
    if b.eligible now then
      match best with
      | none => wrrBest now bs (i+1) (some (i, b.cw))
      | some (_, c) => if c < b.cw then wrrBest now bs (i+1) (some (i, b.cw)) else wrrBest now bs (i+1) best
    else wrrBest now bs (i+1) best

/-- identities (parallel list `ids`) of the eligible backends, in slice order -/
def eligibleIds (pool : List Backend) (ids : List Nat) (now : Nat) : List Nat :=
  ((pool.zip ids).filter (fun p => p.1.eligible now)).map (·.2)

/-- running weights restart from zero when the candidate set differs from the previous pick's -/
def wrrReset (pool : List Backend) (ids lastEl : List Nat) (now : Nat) : List Backend :=
  if eligibleIds pool ids now = lastEl then pool else pool.map (fun b => { b with cw := 0 })

/-- one smooth-WRR selection over a pool whose running weights are current -/
def wrrPickCore (pool : List Backend) (now : Nat) : List Backend × Option Nat :=
  let bumped := wrrBump pool now
  match wrrBest now bumped 0 none with
  | none => (bumped, none)
  | some (i, _) =>
    let total : Int := wrrTotal pool now
    (bumped.modify i (fun b => { b with cw := b.cw - total }), some i)

/-- `NextBackend` of the weighted strategy: reset check, then the selection -/
def wrrPick (pool : List Backend) (ids lastEl : List Nat) (now : Nat) : List Backend × Option Nat :=
  wrrPickCore (wrrReset pool ids lastEl now) now

/-! ### hash strategies -/

/-- indices (into the pool) of the eligible backends, in slice order -/
def eligibleIdx (pool : List Backend) (now : Nat) : List Nat :=
  (List.range pool.length).filter (fun i => match pool[i]? with | some b => b.eligible now | none => false)

def ipHashPick (pool : List Backend) (now : Nat) (key : Bytes) : Option Nat :=
  let el := eligibleIdx pool now
  if el.length = 0 then none
  else el[(Hash.fnv1a key).toNat % el.length]?

def ipHashCPick (pool : List Backend) (now : Nat) (key : Bytes) : Option Nat :=
  let el := eligibleIdx pool now
  if el.length = 0 then none
  else el[(Hash.jumpHash (Hash.fnv1a key).toUInt64 el.length).toNat]?

/-! ### strategy object: backend slice + rotation counter -/

structure Strat where
  kind : Kind
  pool : List Backend
  cur  : Nat := 0
  ids    : List Nat := []      -- object identities, parallel to `pool` (weighted strategy only)
  lastEl : List Nat := []      -- identities of the candidates of the previous weighted pick
  deriving Repr

/-- `NextBackend`: new strategy state and the index of the chosen backend -/
def Strat.next (s : Strat) (now : Nat) (key : Bytes) : Strat × Option Nat :=
  match s.kind with
  | .rr => let r := rrPick s.pool now s.cur; ({ s with cur := r.1 }, r.2)
  | .lc => (s, lcPick s.pool now)
  | .wrr =>
    if s.pool.length = 0 then (s, none) else
    let r := wrrPick s.pool s.ids s.lastEl now
    ({ s with pool := r.1, lastEl := eligibleIds s.pool s.ids now }, r.2)
  | .iphash => (s, ipHashPick s.pool now key)
  | .iphashc => (s, ipHashCPick s.pool now key)

/-- `AddBackend`: append -/
def Strat.add (s : Strat) (b : Backend) : Strat := { s with pool := s.pool ++ [b] }

/-- `RemoveBackend` of the element at index `i`: swap with last, truncate -/
def removeAt (pool : List Backend) (i : Nat) : List Backend :=
  match pool.getLast? with
  | none => pool
  | some l => if i < pool.length then (pool.set i l).dropLast else pool

end Helios.LB
