import Helios.Model.Http
/-
Model of plugin construction (internal/plugins/registry.go and the factories' option
parsing): `BuildChain` either builds the whole chain or fails — it never returns a chain
with a plugin missing.  Option values are what yaml.v3 / encoding/json hand the factories.
-/
namespace Helios.Http

inductive Val where
  | int (n : Int)                       -- YAML integer
  | float (whole : Int)                 -- float64; only its truncation `int(v)` matters
  | str (s : String)
  | strs (l : List String)              -- list whose items are all strings
  | mixed                               -- list with a non-string item
  | smap (m : List (String × String))   -- map with string values only
  | badmap                              -- map with a non-string value
  | bool
  deriving Repr, DecidableEq

abbrev Cfg := List (String × Val)

def Cfg.get (c : Cfg) (k : String) : Option Val := (c.find? (·.1 = k)).map (·.2)

/-- `parseByteLimit`: absent → default, number → must be > 0 after truncation -/
def byteLimit (c : Cfg) (k : String) (dflt : Nat) : Option Nat :=
  match c.get k with
  | none => some dflt
  | some (.int n) => if n > 0 then some n.toNat else none
  | some (.float n) => if n > 0 then some n.toNat else none
  | some _ => none

def numberOpt (v : Option Val) : Option Int :=
  match v with
  | some (.int n) => some n
  | some (.float n) => some n
  | _ => none

def strMap (v : Option Val) : Option Hdr :=
  match v with
  | none => some []
  | some (.smap m) => some m
  | _ => none

/-- the factory of each registered plugin: `none` = construction error -/
def factory (name : String) (c : Cfg) : Option Plugin :=
  if name = "size_limit" then
    match byteLimit c "max_request_body" 10485760, byteLimit c "max_response_body" 52428800 with
    | some a, some b => some (.sizeLimit a b)
    | _, _ => none
  else if name = "gzip" then
    match numberOpt (c.get "level"), numberOpt (c.get "min_size"), c.get "content_types" with
    | some lvl, some ms, some (.strs ts) => if lvl < -1 ∨ lvl > 9 then none else some (.gzip ms.toNat ts)
    | _, _, _ => none
  else if name = "logging" then some .logging
  else if name = "headers" then
    match strMap (c.get "set"), strMap (c.get "request_set") with
    | some a, some b => some (.headers a b)
    | _, _ => none
  else if name = "custom-auth" then
    match c.get "apiKey" with
    | some (.str k) => if k = "" then none else some (.auth k)
    | _ => none
  else none                              -- unknown plugin (request-id is built in but has no model: see C16)

/-- `BuildChain`: every listed plugin is constructed, or the whole build fails -/
def buildChain (specs : List (String × Cfg)) : Option (List Plugin) :=
  specs.mapM (fun s => factory s.1 s.2)

end Helios.Http
