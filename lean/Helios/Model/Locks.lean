/-
C12 — the synchronisation discipline of Helios, in two layers.

1. A dynamic model of goroutines taking and releasing `sync.Mutex` / `sync.RWMutex` locks and
   reading / writing shared locations (`Step`), for any number of goroutines and any programs.
   `Props/C12.lean` proves over it, for every interleaving:
     * lockset soundness   — if every access is made while holding the location's guard
                             (write mode for writes), no state with two conflicting enabled
                             accesses (a data race) is reachable;
     * lock-order soundness — if locks are only acquired in strictly increasing rank and every
                             program releases what it takes, no reachable state is stuck.
2. The static facts re-derived from the Go source on every run (`Generated/Locks.lean`): the
   accesses to every struct field with the locks certainly held there, the lock-order edges,
   calls through function values under a lock.  The row types and the hand-written policy the
   rows are checked against are defined here.
-/
namespace Helios.Locks

/-! ### rows produced by /verif/go/locks -/

structure HeldLock where
  cls  : String      -- lock class: "Type.field" or "pkg.var"
  mode : String      -- "W" | "R"
  same : Bool        -- the lock is a field of the very object whose field is accessed
  deriving Repr, DecidableEq

structure Access where
  struct_ : String
  field   : String
  kind    : String   -- "R" read | "W" write | "A" through sync/atomic
  fresh   : Bool     -- the object was created in this call chain and is not yet shared
  func    : String
  line    : Nat
  held    : List HeldLock
  deriving Repr

/-- how a field is kept free of data races -/
inductive Policy where
  | immutable                                  -- written only before the object is shared
  | atomic                                     -- every shared access goes through sync/atomic
  | guarded (cls : String) (self : Bool) (exempt : List String)
      -- every shared access holds a lock of class `cls` (write mode to write); `self`: the lock
      -- lives in the same object. `exempt`: functions that only ever see private snapshots /
      -- run in the single-threaded start-up phase.
  | confined                                   -- objects of the type are used by one goroutine
  | initOnly (writers : List String)
      -- package-level variable written only by `writers`, which run during package initialisation
      -- (init functions and what only they call): initialisation happens before `main` starts,
      -- so every later read is ordered after every write
  deriving Repr

def Access.holds (a : Access) (cls : String) (self needW : Bool) : Bool :=
  a.held.any (fun h => h.cls == cls && (!self || h.same) && (h.mode == "W" || !needW))

def Access.ok (pol : String → String → Policy) (a : Access) : Bool :=
  a.fresh ||
  match pol a.struct_ a.field with
  | .immutable => a.kind == "R"
  | .atomic => a.kind == "A"
  | .confined => true
  | .initOnly ws => a.kind == "R" || ws.contains a.func
  | .guarded c s ex =>
    ex.contains a.func ||
    (if a.kind == "W" then a.holds c s true else if a.kind == "R" then a.holds c s false else false)

/-! ### the dynamic model -/

abbrev Tid := Nat
abbrev Lock := Nat
abbrev Loc := Nat

inductive Mode where
  | R | W
  deriving DecidableEq, Repr

inductive Ev where
  | acq (l : Lock) (m : Mode)
  | rel (l : Lock) (m : Mode)
  | rd (x : Loc)
  | wr (x : Loc)
  deriving DecidableEq, Repr

structure Thread where
  held : List (Lock × Mode)
  todo : List Ev
  deriving Repr

abbrev State := Tid → Thread

def State.set (s : State) (t : Tid) (th : Thread) : State := fun u => if u = t then th else s u

/-- `sync.RWMutex`: a lock can be taken in mode `m` iff every holder (of any goroutine, the
caller included — Go mutexes are not re-entrant) holds it in read mode and `m` is read mode. -/
def Enabled (s : State) (l : Lock) (m : Mode) : Prop :=
  ∀ u m', (l, m') ∈ (s u).held → m = .R ∧ m' = .R

inductive Step : State → State → Prop where
  | acq (s : State) (t : Tid) (l : Lock) (m : Mode) (rest : List Ev) :
      (s t).todo = .acq l m :: rest → Enabled s l m →
      Step s (s.set t ⟨(l, m) :: (s t).held, rest⟩)
  | rel (s : State) (t : Tid) (l : Lock) (m : Mode) (rest : List Ev) :
      (s t).todo = .rel l m :: rest →
      Step s (s.set t ⟨(s t).held.erase (l, m), rest⟩)
  | rd (s : State) (t : Tid) (x : Loc) (rest : List Ev) :
      (s t).todo = .rd x :: rest → Step s (s.set t ⟨(s t).held, rest⟩)
  | wr (s : State) (t : Tid) (x : Loc) (rest : List Ev) :
      (s t).todo = .wr x :: rest → Step s (s.set t ⟨(s t).held, rest⟩)

inductive Reach (s0 : State) : State → Prop where
  | refl : Reach s0 s0
  | step {s s' : State} : Reach s0 s → Step s s' → Reach s0 s'

/-- two goroutines are about to access the same location and one of the accesses is a write -/
def Race (s : State) : Prop :=
  ∃ t u x rt ru, t ≠ u ∧ (s t).todo = .wr x :: rt ∧
    ((s u).todo = .wr x :: ru ∨ (s u).todo = .rd x :: ru)

/-- some goroutine has work left and nobody can move -/
def Stuck (s : State) : Prop :=
  (∃ t, (s t).todo ≠ []) ∧ ∀ s', ¬ Step s s'

/-- the discipline the static table establishes: with `held` taken so far, the rest of the
program accesses every location under its guard and releases only what it holds -/
def WellLocked (g : Loc → Lock) : List (Lock × Mode) → List Ev → Prop
  | _, [] => True
  | h, .acq l m :: r => WellLocked g ((l, m) :: h) r
  | h, .rel l m :: r => (l, m) ∈ h ∧ WellLocked g (h.erase (l, m)) r
  | h, .rd x :: r => (∃ m, (g x, m) ∈ h) ∧ WellLocked g h r
  | h, .wr x :: r => (g x, Mode.W) ∈ h ∧ WellLocked g h r

/-- locks are acquired in strictly increasing rank, and the program ends holding nothing -/
def Ranked (rank : Lock → Nat) : List (Lock × Mode) → List Ev → Prop
  | h, [] => h = []
  | h, .acq l m :: r => (∀ p ∈ h, rank p.1 < rank l) ∧ Ranked rank ((l, m) :: h) r
  | h, .rel l m :: r => Ranked rank (h.erase (l, m)) r
  | h, .rd _ :: r => Ranked rank h r
  | h, .wr _ :: r => Ranked rank h r

end Helios.Locks
