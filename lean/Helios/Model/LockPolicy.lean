import Helios.Model.Locks
/-
C12 — the hand-written side of the static tie: which lock guards which field of which struct,
and the rank of every lock class. `Props/C12.lean` proves that every row re-derived from the
current source (`Generated/Locks.lean`) satisfies it. Unknown structs and fields default to
`immutable` (package-level variables: written only by `init` functions), so a new shared mutable
field or global without a declared guard fails the theorem.
-/
namespace Helios.Locks

def cbFields : List String :=
  ["state", "failureCount", "successCount", "requestCount", "generation", "lastFailureTime",
   "lastSuccessTime", "nextAttempt", "pendingChanges"]

/-- functions that only see the deep copy returned by `GetMetrics` -/
def snapshotReaders : List String :=
  ["internal/metrics.MetricsCollector.HealthHandler$lit1"]

/-- functions of the single-threaded start-up phase (configuration load, construction, logging
before the listeners start) -/
def startupFuncs : List String :=
  ["cmd/helios.logStartupInfo", "internal/config.Config.validateLoadBalancer",
   "internal/loadbalancer.NewLoadBalancer"]

/-- functions that write package-level state and are called only during package initialisation
(`Facts.init_writers_called_from_init` re-checks the callers on every run) -/
def initWriters : List String := ["internal/plugins.RegisterBuiltin"]

/-- `inits`: the `init` functions found in the current source (regenerated). Package-level
variables are rows of the pseudo-struct `var` with field `<package>.<name>`. -/
def policy (inits : List String) (struct_ field : String) : Policy :=
  match struct_ with
  | "var" =>
    if field == "internal/plugins.builtins" then .initOnly (initWriters ++ inits)
    else if field == "internal/logging.baseLogger" then .guarded "internal/logging.baseLoggerMu" false []
    else .initOnly inits
  | "Backend" =>
    if field == "IsHealthy" || field == "UnhealthyUntil" then .guarded "Backend.Mutex" true []
    else if field == "ActiveConnections" then .atomic else .immutable
  | "CircuitBreaker" =>
    if cbFields.contains field then .guarded "CircuitBreaker.mutex" true [] else .immutable
  | "bucket" =>
    if field == "tokens" || field == "lastRefill" then .guarded "bucket.mutex" true [] else .immutable
  | "RoundRobinStrategy" =>
    if field == "backends" then .guarded "RoundRobinStrategy.mutex" true []
    else if field == "current" then .atomic else .immutable
  | "LeastConnectionsStrategy" =>
    if field == "backends" then .guarded "LeastConnectionsStrategy.mutex" true [] else .immutable
  | "IPHashStrategy" =>
    if field == "backends" then .guarded "IPHashStrategy.mutex" true [] else .immutable
  | "IPHashConsistentStrategy" =>
    if field == "backends" then .guarded "IPHashConsistentStrategy.mutex" true [] else .immutable
  | "WeightedRoundRobinStrategy" =>
    if field == "backends" || field == "lastEligible" then .guarded "WeightedRoundRobinStrategy.mutex" true []
    else .immutable
  | "weightedBackend" =>
    -- owned by exactly one weighted strategy, whose lock guards it
    if field == "currentWeight" then .guarded "WeightedRoundRobinStrategy.mutex" false [] else .immutable
  | "LoadBalancer" =>
    if field == "strategy" then .guarded "LoadBalancer.mutex" true [] else .immutable
  | "LoadBalancerConfig" =>
    if field == "Strategy" then .guarded "LoadBalancer.mutex" false startupFuncs else .immutable
  | "healthChecker" =>
    if field == "unhealthyBackends" then .guarded "healthChecker.unhealthyBackendMu" true [] else .immutable
  | "WebSocketPool" =>
    if field == "pools" || field == "closed" then .guarded "WebSocketPool.mu" true [] else .immutable
  | "connPool" =>
    if field == "idle" || field == "active" || field == "closed" then .guarded "connPool.mu" true []
    else .immutable
  | "Metrics" =>
    if field == "BackendMetrics" || field == "CircuitBreakerMetrics" then .guarded "Metrics.mutex" true snapshotReaders
    else if field == "TotalRequests" || field == "SuccessfulRequests" || field == "FailedRequests"
         || field == "RateLimitedRequests" || field == "avgResponseTimeBits" then .atomic
    else .immutable
  | "BackendMetrics" =>
    if field == "alpha" then .immutable else .guarded "Metrics.mutex" false snapshotReaders
  | "CircuitBreakerMetrics" => .guarded "Metrics.mutex" false snapshotReaders
  -- per-request response writers: created for one request and used by the goroutine serving it
  | "gzipResponseWriter" => .confined
  | "limitedResponseWriter" => .confined
  | "responseWriter" => .confined
  | "statusRecorder" => .confined
  | "idHeaderWriter" => .confined
  | _ => .immutable

/-- rank of every lock class: a lock may be taken only while holding locks of lower rank -/
def rankOf (c : String) : Option Nat :=
  if c == "LoadBalancer.mutex" || c == "WebSocketPool.mu" then some 0
  else if c == "RoundRobinStrategy.mutex" || c == "LeastConnectionsStrategy.mutex"
       || c == "WeightedRoundRobinStrategy.mutex" || c == "IPHashStrategy.mutex"
       || c == "IPHashConsistentStrategy.mutex" then some 1
  else if c == "Backend.Mutex" || c == "connPool.mu" || c == "Backend.connMu" then some 2
  else if c == "Metrics.mutex" || c == "CircuitBreaker.mutex" || c == "bucket.mutex"
       || c == "healthChecker.unhealthyBackendMu" then some 3
  else if c == "internal/logging.baseLoggerMu" then some 4
  else none

def edgeOk (e : String × String × String) : Bool :=
  match rankOf e.1, rankOf e.2.1 with
  | some a, some b => decide (a < b)
  | _, _ => false


/-- rows that violate the policy (diagnostics for a failing `accesses_guarded`) -/
def badAccesses (inits : List String) (chunks : List (List Access)) : List (String × String × String × String × Nat) :=
  (chunks.flatten.filter (fun a => !a.ok (policy inits))).map (fun a => (a.struct_, a.field, a.kind, a.func, a.line))

end Helios.Locks
