import Helios.Model.Bytes
/-
hash/fnv New32a and the integer-division jump consistent hash of ip_hash_consistent.go.
-/
namespace Helios.Hash

def fnvOffset : UInt32 := 2166136261
def fnvPrime : UInt32 := 16777619

/-- FNV-1a, 32 bit: for each byte `h ^= b; h *= prime` -/
def fnv1a (s : Bytes) : UInt32 :=
  s.foldl (fun h b => (h ^^^ b.toUInt32) * fnvPrime) fnvOffset

def jumpMul : UInt64 := 2862933555777941757

def nextKey (key : UInt64) : UInt64 := key * jumpMul + 1

/-- quotient used by the integer-division jump step: `int64(1<<31) / int64((key>>33)+1)` -/
def quo (key : UInt64) : Int := (2147483648 : Int) / (Int.ofNat ((key >>> 33).toNat + 1))

/-- the Go loop: `for j < n { b = j; key = key*C+1; j = (b+1) * (2^31 / ((key>>33)+1)) }`.
`j` and `b` are `int64` in Go; they are unbounded `Int` here and `jump_no_overflow`
(Props/C06) shows every value computed stays below 2^63 for `n < 2^31`. -/
def loop : Nat → UInt64 → Int → Int → Int → Int
  | 0, _, b, _, _ => b
  | fuel+1, key, b, j, n =>
    if j < n then
      let key' := nextKey key
      loop fuel key' j ((j + 1) * quo key') n
    else b

def jumpHash (key : UInt64) (n : Nat) : Int := loop (n+1) key (-1) 0 n

end Helios.Hash
