/-
Model of internal/ratelimiter/ratelimiter.go (TokenBucketRateLimiter).

Time is `Nat` nanoseconds.  One bucket per client string.  The bucket map is a
total function `String → Option Bucket`.

Go code modelled:
  getOrCreateBucket : Load / LoadOrStore with tokens = maxTokens, lastRefill = now
  refillTokens      : add = (now - last) / refill ; if add > 0 { tokens = min(tokens+add, max); last = now }
  Allow             : refill ; if tokens > 0 { tokens-- ; true } else false
  cleanup           : delete every bucket the Go predicate `shouldDelete` selects
-/
namespace Helios.RL

structure Cfg where
  max    : Nat          -- maxTokens   (validated > 0 by config; model allows 0)
  refill : Nat          -- refillRate in ns (> 0 on every construction path)
  cutoff : Nat          -- cleanup idle cutoff in ns (time.Hour in the code; regenerated fact)
  deriving Repr, DecidableEq

structure Bucket where
  tokens : Nat
  last   : Nat
  deriving Repr, DecidableEq

/-- `refillTokens` -/
def refill (c : Cfg) (b : Bucket) (now : Nat) : Bucket :=
  let add := (now - b.last) / c.refill
  if 0 < add then { tokens := min (b.tokens + add) c.max, last := now } else b

/-- the locked part of `Allow` on one bucket -/
def spend (c : Cfg) (b : Bucket) (now : Nat) : Bucket × Bool :=
  let b' := refill c b now
  if 0 < b'.tokens then ({ b' with tokens := b'.tokens - 1 }, true) else (b', false)

/-- a bucket as created by `getOrCreateBucket` -/
def fresh (c : Cfg) (now : Nat) : Bucket := { tokens := c.max, last := now }

/-- `getOrCreateBucket`: the existing bucket, or a fresh full one -/
def bucketOf (c : Cfg) (ob : Option Bucket) (now : Nat) : Bucket :=
  match ob with
  | some b => b
  | none => fresh c now

/-- per-client view of `Allow`: `none` = no bucket in the map -/
def allow1 (c : Cfg) (ob : Option Bucket) (now : Nat) : Option Bucket × Bool :=
  let r := spend c (bucketOf c ob now) now
  (some r.1, r.2)

/-- the Go deletion predicate of `cleanup` (after the fix: idle longer than the cutoff
    *and* the bucket would refill to full, so that re-creation equals natural refill) -/
def shouldDelete (c : Cfg) (b : Bucket) (now : Nat) : Bool :=
  decide (b.last + c.cutoff < now) && decide (c.max ≤ b.tokens + (now - b.last) / c.refill)

def cleanup1 (c : Cfg) (ob : Option Bucket) (now : Nat) : Option Bucket :=
  match ob with
  | some b => if shouldDelete c b now then none else some b
  | none => none

/-- the bucket map (`sync.Map` in Go), as a total function: `none` = no bucket -/
abbrev Map := String → Option Bucket

def Map.empty : Map := fun _ => none

def Map.set (m : Map) (k : String) (ob : Option Bucket) : Map :=
  fun k' => if k' = k then ob else m k'

inductive Op where
  | allow (client : String) (now : Nat)
  | cleanup (now : Nat)
  deriving Repr, DecidableEq

def Op.time : Op → Nat
  | .allow _ t => t
  | .cleanup t => t

/-- one API step; output = the `Allow` result (cleanup has no API-visible output) -/
def step (c : Cfg) (m : Map) : Op → Map × Option Bool
  | .allow k now =>
      let r := allow1 c (m k) now
      (m.set k r.1, some r.2)
  | .cleanup now =>
      (fun k => cleanup1 c (m k) now, none)

def run (c : Cfg) (m : Map) : List Op → Map × List (Option Bool)
  | [] => (m, [])
  | op :: ops =>
      let r := step c m op
      let rs := run c r.1 ops
      (rs.1, r.2 :: rs.2)

/-- number of admitted requests of client `k` in an output-annotated history -/
def admitted (k : String) : List Op → List (Option Bool) → Nat
  | .allow k' _ :: ops, some true :: outs => (if k' = k then 1 else 0) + admitted k ops outs
  | _ :: ops, _ :: outs => admitted k ops outs
  | _, _ => 0

end Helios.RL
