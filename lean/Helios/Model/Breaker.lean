/-
Model of internal/circuitbreaker/circuitbreaker.go (after the repairs: admission and
trial count in one critical section, generation stamp, notifications after unlock).

A request is two atomic steps — `begin` (beforeRequest: the admission decision) and `end_`
(afterRequest) — so overlapping requests and every interleaving of their critical
sections are histories of this model.  Time is `Nat` nanoseconds.
-/
namespace Helios.CB

inductive St where
  | closed | open_ | halfOpen
  deriving Repr, DecidableEq

structure Cfg where
  maxRequests      : Nat
  interval         : Nat
  timeout          : Nat
  failureThreshold : Nat
  successThreshold : Nat
  deriving Repr, DecidableEq

structure State where
  st           : St := .closed
  failureCount : Nat := 0
  successCount : Nat := 0
  requestCount : Nat := 0
  lastFailure  : Option Nat := none     -- none = zero time.Time
  nextAttempt  : Nat := 0
  generation   : Nat := 0
  deriving Repr, DecidableEq

inductive Admit where
  | admitted (gen : Nat)
  | rejectedOpen
  | tooMany
  deriving Repr, DecidableEq

/-- the closed-state counter reset of `beforeRequest`: the last failure is older than `interval` -/
def needsReset (c : Cfg) (s : State) (now : Nat) : Bool :=
  match s.lastFailure with
  | some lf => decide (lf + c.interval < now)
  | none => false

/-- `beforeRequest` at time `now` -/
def begin (c : Cfg) (s : State) (now : Nat) : State × Admit :=
  match s.st with
  | .closed =>
    ({ s with failureCount := if needsReset c s now then 0 else s.failureCount }, .admitted s.generation)
  | .open_ =>
    if s.nextAttempt < now then
      -- Open → HalfOpen, budget reset, then the half-open admission test
      if c.maxRequests = 0 then
        ({ s with st := .halfOpen, generation := s.generation + 1, requestCount := 0, successCount := 0 }, .tooMany)
      else
        ({ s with st := .halfOpen, generation := s.generation + 1, requestCount := 1, successCount := 0 },
         .admitted (s.generation + 1))
    else (s, .rejectedOpen)
  | .halfOpen =>
    if s.requestCount ≥ c.maxRequests then (s, .tooMany)
    else ({ s with requestCount := s.requestCount + 1 }, .admitted s.generation)

/-- `afterRequest(generation, success)` at time `now` -/
def end_ (c : Cfg) (s : State) (gen : Nat) (success : Bool) (now : Nat) : State :=
  if gen ≠ s.generation then s
  else if success then
    match s.st with
    | .halfOpen =>
      if s.successCount + 1 ≥ c.successThreshold then
        { s with successCount := s.successCount + 1, st := .closed, generation := s.generation + 1, failureCount := 0 }
      else { s with successCount := s.successCount + 1 }
    | _ => s
  else
    match s.st with
    | .closed =>
      if s.failureCount + 1 ≥ c.failureThreshold then
        { s with lastFailure := some now, failureCount := s.failureCount + 1, st := .open_,
                 generation := s.generation + 1, nextAttempt := now + c.timeout }
      else { s with lastFailure := some now, failureCount := s.failureCount + 1 }
    | .halfOpen =>
      { s with lastFailure := some now, failureCount := s.failureCount + 1, st := .open_,
               generation := s.generation + 1, nextAttempt := now + c.timeout }
    | .open_ => { s with lastFailure := some now, failureCount := s.failureCount + 1 }

/-- events of a history; `tid` names the request -/
inductive Ev where
  | begin (tid : Nat) (now : Nat)
  | end_ (tid : Nat) (success : Bool) (now : Nat)
  deriving Repr, DecidableEq

def Ev.time : Ev → Nat
  | .begin _ t => t
  | .end_ _ _ t => t

/-- system = breaker state + requests in flight (tid, generation they were admitted in) -/
structure Sys where
  s : State := {}
  inflight : List (Nat × Nat) := []
  deriving Repr, DecidableEq

inductive Out where
  | adm (a : Admit)
  | ended (applied : Bool)     -- false: unknown tid (no such request in flight)
  | dup                        -- begin with a tid that is already in flight: ignored
  deriving Repr, DecidableEq

def lookupTid (tid : Nat) : List (Nat × Nat) → Option Nat
  | [] => none
  | (t, g) :: rest => if t = tid then some g else lookupTid tid rest

def eraseTid (tid : Nat) : List (Nat × Nat) → List (Nat × Nat)
  | [] => []
  | (t, g) :: rest => if t = tid then rest else (t, g) :: eraseTid tid rest

def step (c : Cfg) (y : Sys) : Ev → Sys × Out
  | .begin tid now =>
    if (lookupTid tid y.inflight).isSome then (y, .dup) else
    let r := begin c y.s now
    match r.2 with
    | .admitted g => ({ s := r.1, inflight := (tid, g) :: y.inflight }, .adm r.2)
    | a => ({ y with s := r.1 }, .adm a)
  | .end_ tid ok now =>
    match lookupTid tid y.inflight with
    | some g => ({ s := end_ c y.s g ok now, inflight := eraseTid tid y.inflight }, .ended true)
    | none => (y, .ended false)

def run (c : Cfg) (y : Sys) : List Ev → Sys × List Out
  | [] => (y, [])
  | e :: es =>
    let r := step c y e
    let rs := run c r.1 es
    (rs.1, r.2 :: rs.2)

/-- a whole `Execute(fn)` with no other request in between -/
def exec (c : Cfg) (s : State) (ok : Bool) (now : Nat) : State × Admit :=
  let r := begin c s now
  match r.2 with
  | .admitted g => (end_ c r.1 g ok now, r.2)
  | _ => r

/-- the defaults `NewCircuitBreaker` applies to zero fields -/
def Cfg.withDefaults (c : Cfg) : Cfg :=
  { maxRequests := if c.maxRequests = 0 then 1 else c.maxRequests
    interval := if c.interval = 0 then 60000000000 else c.interval
    timeout := if c.timeout = 0 then 60000000000 else c.timeout
    failureThreshold := if c.failureThreshold = 0 then 5 else c.failureThreshold
    successThreshold := if c.successThreshold = 0 then 1 else c.successThreshold }

end Helios.CB
