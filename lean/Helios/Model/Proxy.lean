import Helios.Model.Http
/-
C01 — what lies between the client's socket and the backend's socket when no transforming
plugin is configured (cmd/helios buildHandler: RequestContextMiddleware → LoadBalancer →
responseWriter → httputil.ReverseProxy):

  backend handler ──ops──▶ backend's net/http server (Base) ──wire──▶ ReverseProxy
        ──ops (rpOps)──▶ lb responseWriter ──▶ idHeaderWriter ──▶ Helios' net/http server (Base)

`httputil.ReverseProxy` is a parameter of the model: `rpOps` is its assumed contract (copy the
end-to-end headers, forward 1xx responses and then clear the header map, forward the status,
copy the body and — FlushInterval -1 — flush after every write). The contract is validated
against the real ReverseProxy by every exchange of the wire differential.
-/
namespace Helios.Proxy
open Helios Helios.Http

def setAll (h : Hdr) : List Op := h.map (fun kv => Op.setH kv.1 kv.2)
def delAll (h : Hdr) : List Op := h.map (fun kv => Op.delH kv.1)

/-- body pieces as ReverseProxy copies them: one Write and one Flush per piece -/
def copyPieces : List Piece → List Op
  | [] => []
  | .raw c :: t => .w c :: .fl :: copyPieces t
  | .gz b :: t => .wgz b :: .fl :: copyPieces t

/-- 1xx responses: headers of the interim response, its status, then the header map is cleared
(`live` = the header map before ReverseProxy touches it) -/
def rpInterim : Hdr → List (Nat × Hdr) → List Op
  | _, [] => []
  | live, (c, h) :: rest => setAll h ++ [.wh c] ++ delAll (live ++ h) ++ rpInterim [] rest

/-- the final response: end-to-end headers, status, body -/
def rpFinal (b : Base) : List Op :=
  setAll b.view.hdr ++ [.wh b.view.status] ++ copyPieces b.view.pieces

/-- everything ReverseProxy does to the writer it is given, for the response the backend's
server `b` put on the wire -/
def rpOps (live : Hdr) (b : Base) : List Op :=
  rpInterim live (b.interim.zip b.interimSnap) ++ rpFinal b

/-! ### the balancer's status-capturing writer -/

structure LbW where
  status : Nat := 200
  wroteHeader : Bool := false
  deriving Repr, DecidableEq

/-- `responseWriter`: records the status, forwards every operation unchanged -/
def LbW.step (l : LbW) : Op → List Op × LbW
  | .wh c => ([.wh c], { status := c, wroteHeader := l.wroteHeader || decide (c ≥ 200) })
  | op => ([op], l)

def transLb : LbW → List Op → List Op × LbW
  | l, [] => ([], l)
  | l, op :: rest =>
    let r := l.step op
    let t := transLb r.2 rest
    (r.1 ++ t.1, t.2)

/-! ### the request-context middleware -/

structure IdCfg where
  reqOn    : Bool
  traceOn  : Bool
  reqName  : String := "X-Request-Id"
  traceName : String := "X-Trace-Id"
  deriving Repr

/-- identifiers in force for one request: supplied non-blank value, or a generated one -/
structure Ids where
  req   : String
  trace : String
  deriving Repr

/-- the ID headers the middleware sets on the response before calling the chain -/
def idHdrs (cfg : IdCfg) (ids : Ids) : Hdr :=
  (if cfg.reqOn then [(cfg.reqName, ids.req)] else []) ++
  (if cfg.traceOn then [(cfg.traceName, ids.trace)] else [])

/-- `idHeaderWriter.ensure`: put back the identifiers that are missing from the live map -/
def ensureOps (want live : Hdr) : List Op :=
  (want.filter (fun kv => kv.2 != "" && live.get kv.1 == "")).map (fun kv => Op.setH kv.1 kv.2)

/-- `idHeaderWriter` as a transducer over the operations coming from the chain; `live` is the
header map of the underlying writer at this moment -/
def transId (want : Hdr) : Bool → Hdr → List Op → List Op
  | _, _, [] => []
  | done, live, op :: rest =>
    let final := match op with
      | .wh c => decide (c < 100 ∨ c ≥ 200)
      | .w _ | .wgz _ | .fl => true
      | _ => false
    if final && !done then
      let e := ensureOps want live
      let live' := (e ++ [op]).foldl applyHdr live
      e ++ [op] ++ transId want true live' rest
    else
      op :: transId want done (applyHdr live op) rest

/-- the client's view of an exchange through Helios, given what the backend's server sent -/
def viaOps (cfg : IdCfg) (ids : Ids) (b : Base) : List Op :=
  let want := idHdrs cfg ids
  setAll want ++ transId want false want (transLb {} (rpOps want b)).1

def via (cfg : IdCfg) (ids : Ids) (b : Base) : Base :=
  Base.run { head := b.head } (viaOps cfg ids b)

/-! ### request side -/

def blank (s : String) : Bool := s.toList.all (fun c => c == ' ' || c == '\t' || c == '\n' || c == '\r')

/-- identifier forwarded for one feature: the supplied value unless blank, else a generated one -/
def chooseId (supplied : String) (generated : String) : String :=
  if blank supplied then generated else supplied

/-- request headers as forwarded to the backend -/
def fwdHdr (cfg : IdCfg) (gen : Ids) (h : Hdr) : Hdr :=
  let h1 := if cfg.reqOn && blank (h.get cfg.reqName) then h.set cfg.reqName gen.req else h
  if cfg.traceOn && blank (h1.get cfg.traceName) then h1.set cfg.traceName gen.trace else h1

def idsFor (cfg : IdCfg) (gen : Ids) (h : Hdr) : Ids :=
  { req := chooseId (h.get cfg.reqName) gen.req, trace := chooseId (h.get cfg.traceName) gen.trace }

end Helios.Proxy
