/-
Byte-string helpers.  Go strings are byte sequences; the model uses `List UInt8`.
-/
namespace Helios

abbrev Bytes := List UInt8

namespace Bytes

def ofString (s : String) : Bytes := s.toUTF8.toList

/-- index of the first occurrence of byte `c` (`strings.IndexByte`) -/
def indexOf (c : UInt8) : Bytes → Option Nat
  | [] => none
  | b :: bs => if b = c then some 0 else (indexOf c bs).map (· + 1)

/-- index of the last occurrence of byte `c` (`strings.LastIndexByte`) -/
def lastIndexOf (c : UInt8) : Bytes → Option Nat
  | [] => none
  | b :: bs =>
    match lastIndexOf c bs with
    | some i => some (i + 1)
    | none => if b = c then some 0 else none

def contains (c : UInt8) (s : Bytes) : Bool := (indexOf c s).isSome

def hexDigit (n : Nat) : Char := if n < 10 then Char.ofNat (48 + n) else Char.ofNat (87 + n)

/-- injective text form of a byte string (used as map key) -/
def hex (s : Bytes) : String :=
  String.ofList (s.flatMap (fun b => [hexDigit (b.toNat / 16), hexDigit (b.toNat % 16)]))

def colon : UInt8 := 58
def comma : UInt8 := 44
def lbrack : UInt8 := 91
def rbrack : UInt8 := 93

end Bytes
end Helios
