import Helios.Model.Strategy
import Helios.Model.RateLimiter
import Helios.Model.Breaker
/-
Model of the request path and the admin/health operations of
internal/loadbalancer/loadbalancer.go (after the repairs recorded in known_findings.json).

A client request is two steps, `begin` (ServeHTTP up to the moment the backend is contacted)
and `end_` (the backend's outcome and everything after it), so overlapping requests and
the in-flight gauges are part of the model.  Time is `Nat` ns.
-/
namespace Helios.LB
open Helios

/-- per-name entry of the metrics collector (`BackendMetrics`) -/
structure BM where
  total   : Nat := 0
  ok      : Nat := 0
  failed  : Nat := 0
  conns   : Int := 0
  healthy : Bool := false
  deriving Repr, DecidableEq

structure HC where
  passive   : Bool
  threshold : Int          -- unhealthy_threshold (Go int)
  ejectFor  : Nat          -- unhealthy_timeout in ns
  deriving Repr, DecidableEq

/-- a request in flight: which backend object it occupies and the breaker generation -/
structure Flight where
  tid : Nat
  bid : Nat                -- backend object identity
  gen : Option Nat         -- breaker generation (none: breaker disabled)
  deriving Repr, DecidableEq

structure Obj where
  id : Nat
  b  : Backend
  deriving Repr, DecidableEq

structure Sys where
  kind     : Kind
  pool     : List Obj := []           -- the strategy's slice, in order
  dead     : List Obj := []           -- removed backend objects that may still have requests in flight
  cur      : Nat := 0                 -- round-robin counter
  lastEl   : List Nat := []           -- weighted strategy: candidates of the previous pick
  nextId   : Nat := 0
  hc       : HC
  failCnt  : String → Nat := fun _ => 0      -- passive failure counters by name
  total    : Nat := 0
  okCnt    : Nat := 0
  failed   : Nat := 0
  limited  : Nat := 0
  bm       : String → Option BM := fun _ => none
  rl       : Option (RL.Cfg × RL.Map) := none
  cb       : Option (CB.Cfg × CB.State) := none
  flights  : List Flight := []

def Sys.backends (y : Sys) : List Backend := y.pool.map (·.b)

def bmUpd (bm : String → Option BM) (name : String) (f : BM → BM) : String → Option BM :=
  fun k => if k = name then some (f ((bm name).getD {})) else bm k

/-- write back the backends (same length, same order) returned by a strategy step -/
def zipBack (pool : List Obj) (bs : List Backend) : List Obj :=
  List.zipWith (fun o b => { o with b := b }) pool bs

def Sys.strat (y : Sys) : Strat :=
  { kind := y.kind, pool := y.backends, cur := y.cur, ids := y.pool.map (·.id), lastEl := y.lastEl }

/-- `time.Now().After(UnhealthyUntil)` (the zero time is always in the past) -/
def expired (b : Backend) (now : Nat) : Bool :=
  match b.until_ with
  | some u => decide (u < now)
  | none => true

/-- `IsBackendHealthy` on pool index `i`: lazy expiry flips the flag and the metrics mirror -/
def isHealthyAt (y : Sys) (i : Nat) (now : Nat) : Sys × Bool :=
  match y.pool[i]? with
  | none => (y, false)
  | some o =>
    if o.b.healthy then (y, true)
    else
      if expired o.b now then
        ({ y with pool := y.pool.set i { o with b := { o.b with healthy := true } },
                  bm := bmUpd y.bm o.b.name (fun m => { m with healthy := true }) }, true)
      else (y, false)

/-- `findHealthyBackend`: up to `fuel` strategy picks, each re-checked by `IsBackendHealthy` -/
def findBackend (y : Sys) (now : Nat) (key : Bytes) : Nat → Sys × Option Nat
  | 0 => (y, none)
  | fuel+1 =>
    let r := y.strat.next now key
    let y1 := { y with pool := zipBack y.pool r.1.pool, cur := r.1.cur, lastEl := r.1.lastEl }
    match r.2 with
    | none => (y1, none)
    | some i =>
      let h := isHealthyAt y1 i now
      if h.2 then (h.1, some i) else findBackend h.1 now key fuel

def retryBudget : Nat := 3

inductive Begun where
  | limited                 -- 429 by the rate limiter
  | cbOpen                  -- 503 by the breaker
  | cbTooMany               -- 429 by the breaker (half-open budget used up)
  | noBackend               -- 503 no healthy backend
  | fwd (name : String)     -- forwarded to this backend, now in flight
  deriving Repr, DecidableEq

/-- MarkBackendUnhealthy on an object -/
def ejectObj (o : Obj) (now dur : Nat) : Obj :=
  { o with b := { o.b with healthy := false, until_ := some (now + dur) } }

def updObj (l : List Obj) (id : Nat) (f : Obj → Obj) : List Obj :=
  l.map (fun o => if o.id = id then f o else o)

def findObj (l : List Obj) (id : Nat) : Option Obj := l.find? (·.id = id)

/-- `handleRequest` up to the backend call: find a backend, occupy it -/
def dispatch (y : Sys) (gen : Option Nat) (tid now : Nat) (r : Addr.Req) : Sys × Begun :=
  let f := findBackend y now (Addr.strategyKey r) retryBudget
  -- the strategy hands back a backend object (an index into the slice in this model)
  match f.2.bind (fun i => (f.1.pool[i]?).map (fun o => (i, o))) with
  | none =>
    -- 503, counted as failed; the breaker sees a nil error (success)
    let y := { f.1 with failed := f.1.failed + 1 }
    let y := match y.cb, gen with
      | some (c, s), some g => { y with cb := some (c, CB.end_ c s g true now) }
      | _, _ => y
    (y, .noBackend)
  | some (i, o) =>
    let o' := { o with b := { o.b with conns := o.b.conns + 1 } }
    ({ f.1 with pool := f.1.pool.set i o',
                bm := bmUpd f.1.bm o.b.name (fun m => { m with conns := o'.b.conns }),
                flights := { tid := tid, bid := o.id, gen := gen } :: f.1.flights }, .fwd o.b.name)

/-- the rate-limiter gate of `ServeHTTP` (after `RecordRequest`) -/
def rlGate (y : Sys) (now : Nat) (r : Addr.Req) : Sys × Bool :=
  match y.rl with
  | none => (y, true)
  | some (c, m) =>
    let a := RL.step c m (.allow (Bytes.hex (Addr.clientIP r)) now)
    ({ y with rl := some (c, a.1) }, a.2 == some true)

/-- the circuit-breaker admission: `inl` = rejected with that answer, `inr gen` = admitted -/
def cbGate (y : Sys) (now : Nat) : Sys × (Begun ⊕ Option Nat) :=
  match y.cb with
  | none => (y, .inr none)
  | some (c, s) =>
    let a := CB.begin c s now
    let y' := { y with cb := some (c, a.1) }
    match a.2 with
    | .admitted g => (y', .inr (some g))
    | .rejectedOpen => ({ y' with failed := y'.failed + 1 }, .inl .cbOpen)
    | .tooMany => ({ y' with failed := y'.failed + 1 }, .inl .cbTooMany)

/-- ServeHTTP up to the backend call -/
def begin (y : Sys) (tid now : Nat) (r : Addr.Req) : Sys × Begun :=
  let g := rlGate { y with total := y.total + 1 } now r
  if !g.2 then ({ g.1 with limited := g.1.limited + 1 }, .limited) else
  let a := cbGate g.1 now
  match a.2 with
  | .inl resp => (a.1, resp)
  | .inr gen => dispatch a.1 gen tid now r

inductive Outcome where
  | status (code : Nat)     -- the status the proxied exchange ended with (502 = unreachable)
  | abort                   -- backend failed mid-body: ReverseProxy aborts the handler
  deriving Repr, DecidableEq

/-- passive health accounting after a 5xx -/
def passiveFail (y : Sys) (id : Nat) (name : String) (now : Nat) : Sys :=
  let n := y.failCnt name + 1
  if (n : Int) ≥ y.hc.threshold then
    { y with failCnt := fun k => if k = name then 0 else y.failCnt k,
             pool := updObj y.pool id (fun o => ejectObj o now y.hc.ejectFor),
             dead := updObj y.dead id (fun o => ejectObj o now y.hc.ejectFor),
             bm := bmUpd y.bm name (fun m => { m with healthy := false }) }
  else { y with failCnt := fun k => if k = name then n else y.failCnt k }

/-- the accounting of a finished exchange on backend object `o` -/
def finish (y : Sys) (fl : Flight) (o : Obj) (now : Nat) (out : Outcome) : Sys :=
  let name := o.b.name
  let conns' := o.b.conns - 1
  let dec := fun (o : Obj) => { o with b := { o.b with conns := o.b.conns - 1 } }
  let y := { y with pool := updObj y.pool fl.bid dec, dead := updObj y.dead fl.bid dec,
                    bm := bmUpd y.bm name (fun m => { m with conns := conns' }) }
  let success := match out with | .status c => decide (c < 500) | .abort => false
  let y := { y with okCnt := y.okCnt + (if success then 1 else 0), failed := y.failed + (if success then 0 else 1) }
  let y := { y with bm := bmUpd y.bm name (fun m =>
              { m with total := m.total + 1, ok := m.ok + (if success then 1 else 0),
                       failed := m.failed + (if success then 0 else 1) }) }
  let y := match out with
    | .status c => if c ≥ 500 ∧ y.hc.passive then passiveFail y fl.bid name now else y
    | .abort => y
  match y.cb, fl.gen with
  | some (c, s), some g => { y with cb := some (c, CB.end_ c s g success now) }
  | _, _ => y

/-- everything after the backend call returned (or aborted); `false` = no such request -/
def end_ (y : Sys) (tid now : Nat) (out : Outcome) : Sys × Bool :=
  match y.flights.find? (·.tid = tid) with
  | none => (y, false)
  | some fl =>
    match (findObj y.pool fl.bid).orElse (fun _ => findObj y.dead fl.bid) with
    | none => (y, false)     -- cannot happen: a request holds its backend object
    | some o =>
      (finish { y with flights := y.flights.filter (fun f => f.tid ≠ tid) } fl o now out, true)

/-! ### admin operations (each holds the balancer write lock for its whole body) -/

/-- `AddBackend` (address already parsed; `addrOk = false` models a `url.Parse` error) -/
def add (y : Sys) (name : String) (weight : Int) (addrOk : Bool) : Sys × Bool :=
  if !addrOk then (y, false)
  else if y.pool.any (·.b.name = name) then (y, false)
  else
    let w : Nat := if weight < 1 then 1 else weight.toNat
    let b : Backend := { name := name, weight := w, healthy := true, until_ := none, conns := 0, cw := 0 }
    ({ y with pool := y.pool ++ [{ id := y.nextId, b := b }], nextId := y.nextId + 1,
              bm := bmUpd y.bm name (fun m => { m with healthy := true }) }, true)

/-- `RemoveBackend`: first backend of that name, swap with last, truncate -/
def remove (y : Sys) (name : String) : Sys :=
  match y.pool.findIdx? (·.b.name = name) with
  | none => y
  | some i =>
    match y.pool[i]?, y.pool.getLast? with
    | some o, some l => { y with pool := (y.pool.set i l).dropLast, dead := o :: y.dead }
    | _, _ => y

def kindOfName : String → Option Kind
  | "round_robin" => some .rr
  | "least_connections" => some .lc
  | "weighted_round_robin" => some .wrr
  | "ip_hash" => some .iphash
  | "ip_hash_consistent" => some .iphashc
  | _ => none

/-- `SetStrategy`: a fresh strategy object receives the same backend objects in order
(rotation counter and smooth-WRR running weights start from zero) -/
def setStrategy (y : Sys) (name : String) : Sys × Bool :=
  match kindOfName name with
  | none => (y, false)
  | some k => ({ y with kind := k, cur := 0, lastEl := [],
                        pool := y.pool.map (fun o => { o with b := { o.b with cw := 0 } }) }, true)

/-- `MarkBackendUnhealthy` by name (as the active probe failure path and tests call it) -/
def eject (y : Sys) (name : String) (now dur : Nat) : Sys × Bool :=
  match y.pool.findIdx? (·.b.name = name) with
  | none => (y, false)
  | some i =>
    match y.pool[i]? with
    | none => (y, false)
    | some o =>
      ({ y with pool := y.pool.set i (ejectObj o now dur),
                bm := bmUpd y.bm name (fun m => { m with healthy := false }) }, true)

/-- one active check of a backend (`checkBackendHealth`) with the given probe result -/
def probe (y : Sys) (name : String) (now : Nat) (ok : Bool) : Sys × Bool :=
  match y.pool.findIdx? (·.b.name = name) with
  | none => (y, false)
  | some i =>
    let h := isHealthyAt y i now
    if !h.2 then (h.1, true)            -- ejected backends are not probed
    else if !ok then (eject h.1 name now h.1.hc.ejectFor).1 |> fun y' => (y', true)
    else
      -- probe OK: mark healthy unless ejected meanwhile (cannot happen within one atomic step)
      match h.1.pool[i]? with
      | none => (h.1, true)
      | some o =>
        ({ h.1 with pool := h.1.pool.set i { o with b := { o.b with healthy := true } },
                    bm := bmUpd h.1.bm name (fun m => { m with healthy := true }) }, true)

/-- an active check starts: the lazy-expiry health test decides whether a probe is sent at all
(`checkBackendHealth` up to the HTTP call) -/
def probeBegin (y : Sys) (name : String) (now : Nat) : Sys × Option Bool :=
  match y.pool.findIdx? (·.b.name = name) with
  | none => (y, none)
  | some i =>
    let h := isHealthyAt y i now
    (h.1, some h.2)

/-- `wasUnhealthy && !now.After(UnhealthyUntil)`: ejected, and the window still runs -/
def stillEjected (b : Backend) (now : Nat) : Bool :=
  !b.healthy && (match b.until_ with | some u => decide (now ≤ u) | none => false)

/-- the answer of a probe that was sent earlier arrives (`processHealthCheckResponse`): the
backend may have been ejected while the probe was in flight — then a 200 changes nothing -/
def probeEnd (y : Sys) (name : String) (now : Nat) (ok : Bool) : Sys × Bool :=
  match y.pool.findIdx? (·.b.name = name) with
  | none => (y, false)
  | some i =>
    if !ok then ((eject y name now y.hc.ejectFor).1, true)
    else
      match y.pool[i]? with
      | none => (y, true)
      | some o =>
        if stillEjected o.b now then (y, true)
        else
          ({ y with pool := y.pool.set i { o with b := { o.b with healthy := true } },
                    bm := bmUpd y.bm name (fun m => { m with healthy := true }) }, true)

end Helios.LB
