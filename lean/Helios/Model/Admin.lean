/-
Model of the admin API access control (internal/adminapi/server.go, ipfilter.go) after the
repairs: the IP filter looks at the connection's peer address only and a malformed list
entry refuses everything.

Addresses are values *after* `net.ParseIP` / `net.ParseCIDR` (trusted stdlib): an IPv4
address (IPv4-mapped IPv6 included) is 32 bits, an IPv6 address 128 bits.
-/
namespace Helios.Admin

inductive IP where
  | v4 (a : Nat)        -- < 2^32
  | v6 (a : Nat)        -- < 2^128
  deriving Repr, DecidableEq

/-- a parsed list entry: network number and prefix length -/
structure Net where
  base : IP
  len  : Nat
  deriving Repr, DecidableEq

/-- `IPNet.Contains`: same family and equal in the first `len` bits -/
def Net.contains (n : Net) (ip : IP) : Bool :=
  match n.base, ip with
  | .v4 b, .v4 a => decide (b / 2 ^ (32 - n.len) = a / 2 ^ (32 - n.len))
  | .v6 b, .v6 a => decide (b / 2 ^ (128 - n.len) = a / 2 ^ (128 - n.len))
  | _, _ => false

/-- configured lists; `none` = some entry failed to parse -/
structure Filter where
  allow : Option (List Net)
  deny  : Option (List Net)
  configured : Bool            -- at least one of the two lists is non-empty in the configuration
  deriving Repr, DecidableEq

inductive IPVerdict where
  | pass | refuse
  deriving Repr, DecidableEq

/-- `IPFilter.IsAllowed` on the parsed peer address (`none` = `net.ParseIP` failed) -/
def isAllowed (allow deny : List Net) (peer : Option IP) : Bool :=
  match peer with
  | none => false
  | some ip =>
    if deny.any (·.contains ip) then false
    else if allow.isEmpty then true
    else allow.any (·.contains ip)

/-- the filter stage of `NewMux` -/
def ipStage (f : Filter) (peer : Option IP) : IPVerdict :=
  if !f.configured then .pass
  else match f.allow, f.deny with
    | some a, some d => if isAllowed a d peer then .pass else .refuse
    | _, _ => .refuse                       -- malformed entry: fail closed

abbrev Text := List Char

def bearerPrefix : Text := ['B', 'e', 'a', 'r', 'e', 'r', ' ']

/-- `strings.HasPrefix(authz, "Bearer ") && strings.TrimPrefix(authz, "Bearer ") == token` -/
def bearerOK (token authz : Text) : Bool :=
  bearerPrefix.isPrefixOf authz && authz.drop 7 == token

structure Route where
  path : String
  auth : Bool
  deriving Repr, DecidableEq

/-- the route table of `NewMux` -/
def routes : List Route :=
  [⟨"/v1/health", false⟩, ⟨"/v1/metrics", true⟩, ⟨"/v1/backends", true⟩,
   ⟨"/v1/backends/add", true⟩, ⟨"/v1/backends/remove", true⟩, ⟨"/v1/strategy", true⟩]

inductive Verdict where
  | forbidden        -- 403 by the IP filter, handler not reached
  | noRoute          -- no handler for this path (404 / redirect by ServeMux)
  | unauthorized     -- 401 "unauthorized", handler not run
  | served           -- the endpoint's handler ran
  deriving Repr, DecidableEq

structure Req where
  path  : String
  authz : Text              -- first Authorization header value ([] if absent)
  peer  : Option IP         -- parsed host part of RemoteAddr
  deriving Repr

def decide (f : Filter) (token : Text) (r : Req) : Verdict :=
  match ipStage f r.peer with
  | .refuse => .forbidden
  | .pass =>
    match routes.find? (·.path = r.path) with
    | none => .noRoute
    | some rt =>
      if rt.auth && token != [] && !bearerOK token r.authz then .unauthorized else .served

end Helios.Admin

namespace Helios.Admin

/-- the part of the balancer the admin endpoints can change or reveal -/
structure AState where
  names : List String := []
  strategy : String := "round_robin"
  deriving Repr, DecidableEq

inductive Body where
  | none
  | bad                                    -- not valid JSON for the endpoint
  | add (name : String) (addrOk : Bool)    -- {"name":…,"address":…}; name may be empty
  | remove (name : String)
  | strategy (name : String)
  deriving Repr, DecidableEq

def validStrategies : List String :=
  ["round_robin", "least_connections", "weighted_round_robin", "ip_hash", "ip_hash_consistent"]

/-- what a served endpoint handler does: status code and new state -/
def handle (st : AState) (path method : String) (b : Body) : Nat × AState :=
  if path = "/v1/health" then (200, st)
  else if path = "/v1/metrics" then (200, st)
  else if path = "/v1/backends" then (if method = "GET" then (200, st) else (405, st))
  else if path = "/v1/backends/add" then
    if method ≠ "POST" then (405, st) else
    match b with
    | .add name addrOk =>
      if name = "" then (400, st)
      else if !addrOk then (400, st)
      else if st.names.contains name then (400, st)
      else (201, { st with names := st.names ++ [name] })
    | _ => (400, st)
  else if path = "/v1/backends/remove" then
    if method ≠ "POST" ∧ method ≠ "DELETE" then (405, st) else
    match b with
    | .remove name => if name = "" then (400, st) else (200, { st with names := st.names.filter (· ≠ name) })
    | _ => (400, st)
  else if path = "/v1/strategy" then
    if method ≠ "POST" then (405, st) else
    match b with
    | .strategy name =>
      if name = "" then (400, st)
      else if validStrategies.contains name then (200, { st with strategy := name }) else (400, st)
    | _ => (400, st)
  else (404, st)

/-- one admin request: verdict, status and state afterwards; only a served request runs a handler -/
def request (f : Filter) (token : Text) (st : AState) (r : Req) (method : String) (b : Body) :
    Verdict × Nat × AState :=
  match decide f token r with
  | .forbidden => (.forbidden, 403, st)
  | .noRoute => (.noRoute, 404, st)
  | .unauthorized => (.unauthorized, 401, st)
  | .served => let h := handle st r.path method b; (.served, h.1, h.2)

end Helios.Admin
