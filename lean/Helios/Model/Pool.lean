/-
Model of internal/loadbalancer/websocket_pool.go (after the repair: nothing is retained
once Shutdown has run).  Connections are numbers; time is `Nat` ns.
-/
namespace Helios.Pool

structure CP where
  idle   : List (Nat × Nat) := []      -- (connection, lastUsed), most recently returned first
  active : Nat := 0
  deriving Repr, DecidableEq

structure State where
  maxIdle : Nat
  timeout : Nat
  pools   : List (String × CP) := []   -- per backend, at most one entry per name
  down    : Bool := false              -- Shutdown has run
  closed  : List Nat := []             -- connections the pool has closed (Close() called)
  deriving Repr, DecidableEq

def find (s : State) (b : String) : Option CP := (s.pools.find? (·.1 = b)).map (·.2)

def setPool (s : State) (b : String) (p : CP) : State :=
  { s with pools := (s.pools.filter (·.1 ≠ b)) ++ [(b, p)] }

/-- pop idle connections (most recently returned first) until a fresh one is found; stale
ones are closed -/
def takeFresh (timeout now : Nat) : List (Nat × Nat) → List (Nat × Nat) × Option Nat × List Nat
  | [] => ([], none, [])
  | (c, used) :: rest =>
    if now - used > timeout then
      let r := takeFresh timeout now rest
      (r.1, r.2.1, c :: r.2.2)
    else (rest, some c, [])

def afterGet (p : CP) (r : List (Nat × Nat) × Option Nat × List Nat) : CP :=
  { idle := r.1, active := if r.2.1.isSome then p.active + 1 else p.active }

def decActive (p : CP) : CP := { p with active := p.active - 1 }
def pushIdle (p : CP) (c now : Nat) : CP := { p with idle := (c, now) :: p.idle }

/-- `Get` -/
def get (s : State) (b : String) (now : Nat) : State × Option Nat :=
  match find s b with
  | none => (s, none)
  | some p =>
    let r := takeFresh s.timeout now p.idle
    ({ setPool s b (afterGet p r) with closed := s.closed ++ r.2.2 }, r.2.1)

/-- `Put` (a non-nil connection) -/
def put (s : State) (b : String) (c now : Nat) : State × Bool :=
  if s.down then ({ s with closed := s.closed ++ [c] }, false)
  else
    let p := (find s b).getD {}
    let p := { p with active := p.active - 1 }
    if p.idle.length ≥ s.maxIdle then ({ setPool s b p with closed := s.closed ++ [c] }, false)
    else (setPool s b (pushIdle p c now), true)

/-- `Close` -/
def close (s : State) (b : String) (c : Nat) : State :=
  let s := { s with closed := s.closed ++ [c] }
  match find s b with
  | none => s
  | some p => setPool s b (decActive p)

/-- `cleanup` -/
def cleanup (s : State) (now : Nat) : State :=
  let stale := s.pools.flatMap (fun bp => (bp.2.idle.filter (fun cu => now - cu.2 > s.timeout)).map (·.1))
  { s with pools := s.pools.map (fun bp => (bp.1, { bp.2 with idle := bp.2.idle.filter (fun cu => !(now - cu.2 > s.timeout)) })),
           closed := s.closed ++ stale }

/-- `Shutdown` -/
def shutdown (s : State) : State :=
  { s with closed := s.closed ++ s.pools.flatMap (fun bp => bp.2.idle.map (·.1)), pools := [], down := true }

def stats (s : State) (b : String) : Nat × Nat :=
  match find s b with
  | none => (0, 0)
  | some p => (p.idle.length, p.active)

/-- every connection the pool currently retains -/
def retained (s : State) : List Nat := s.pools.flatMap (fun bp => bp.2.idle.map (·.1))

end Helios.Pool
