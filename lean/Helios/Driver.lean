import Helios.Model.RateLimiter
/-
Line-protocol driver: one operation per input line, one output line per operation.
Core Lean only (compiled as the `driver` executable).  Every sub-model has its own
command prefix; unknown lines answer `bad-op` (never a default).
-/
namespace Helios.Driver

structure DState where
  rlCfg : RL.Cfg := { max := 1, refill := 1, cutoff := 3600000000000 }
  rlMap : RL.Map := RL.Map.empty

def words (line : String) : List String :=
  (line.splitOn " ").filter (fun w => w != "")

def rlStep (s : DState) : List String → DState × String
  | ["new", mx, rf, cut] =>
    match mx.toNat?, rf.toNat?, cut.toNat? with
    | some m, some r, some c =>
      ({ s with rlCfg := { max := m, refill := r, cutoff := c }, rlMap := RL.Map.empty }, "ok")
    | _, _, _ => (s, "bad-op")
  | ["allow", client, now] =>
    match now.toNat? with
    | some t =>
      let r := RL.step s.rlCfg s.rlMap (.allow client t)
      ({ s with rlMap := r.1 }, match r.2 with | some true => "1" | some false => "0" | none => "bad")
    | none => (s, "bad-op")
  | ["cleanup", now] =>
    match now.toNat? with
    | some t => ({ s with rlMap := (RL.step s.rlCfg s.rlMap (.cleanup t)).1 }, "ok")
    | none => (s, "bad-op")
  | _ => (s, "bad-op")

def step (s : DState) (line : String) : DState × String :=
  match words line with
  | "rl" :: rest => rlStep s rest
  | _ => (s, "bad-op")

partial def loop (h : IO.FS.Stream) (out : IO.FS.Stream) (s : DState) : IO Unit := do
  let line ← h.getLine
  if line.isEmpty then return ()
  let l := (line.dropRightWhile (fun c => c == '\n' || c == '\r'))
  if l.startsWith "#" || l.isEmpty then
    loop h out s
  else
    let (s', o) := step s l
    out.putStrLn o
    loop h out s'

def main : IO Unit := do
  let stdin ← IO.getStdin
  let stdout ← IO.getStdout
  loop stdin stdout {}
  stdout.flush

end Helios.Driver
