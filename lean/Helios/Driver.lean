import Helios.Model.RateLimiter
import Helios.Model.Breaker
import Helios.Model.LB
import Helios.Model.Admin
import Helios.Model.Http
import Helios.Model.Proxy
import Helios.Model.Registry
import Helios.Model.Ids
import Helios.Model.Config
import Helios.Model.Wiring
import Helios.Model.Pool
/-
Line-protocol driver: one operation per input line, one output line per operation.
Core Lean only (compiled as the `driver` executable).  Every sub-model has its own
command prefix; unknown lines answer `bad-op` (never a default).
-/
namespace Helios.Driver

structure DState where
  rlCfg : RL.Cfg := { max := 1, refill := 1, cutoff := 3600000000000 }
  rlMap : RL.Map := RL.Map.empty
  cbCfg : CB.Cfg := { maxRequests := 1, interval := 1, timeout := 1, failureThreshold := 1, successThreshold := 1 }
  cbSys : CB.Sys := {}
  cbChanges : List String := []
  cbLive : Bool := false
  lb : Option LB.Sys := none
  lbNames : List String := []
  admF : Admin.Filter := ⟨some [], some [], false⟩
  admTok : Admin.Text := []
  admSt : Admin.AState := {}
  idCfg : Bool × String × Bool × String := (false, "", false, "")
  idPlugins : List String := []
  idRl : Option Nat := none       -- tokens left (none = limiter off)
  idEjected : Bool := false
  pool : Option Pool.State := none
  lbProbe : Option String := none           -- name of the backend whose active probe is held in flight
  pxIds : Bool × Bool := (false, false)     -- request-id / trace features of the `px` front end
  pxBase : String := ""                      -- backend base path
  rwChain : Option String := none            -- the chain held by `rws` for the following `rw @` exchanges
  admReg : List (String × Int × String) := []   -- admin API registry as `adm padd / prm` leave it: (name, weight, address)

def words (line : String) : List String :=
  (line.splitOn " ").filter (fun w => w != "")

def rlStep (s : DState) : List String → DState × String
  | ["new", mx, rf, cut] =>
    match mx.toNat?, rf.toNat?, cut.toNat? with
    | some m, some r, some c =>
      ({ s with rlCfg := { max := m, refill := r, cutoff := c }, rlMap := RL.Map.empty }, "ok")
    | _, _, _ => (s, "bad-op")
  | ["allow", client, now] =>
    match now.toNat? with
    | some t =>
      let r := RL.step s.rlCfg s.rlMap (.allow client t)
      ({ s with rlMap := r.1 }, match r.2 with | some true => "1" | some false => "0" | none => "bad")
    | none => (s, "bad-op")
  | ["cleanup", now] =>
    match now.toNat? with
    | some t => ({ s with rlMap := (RL.step s.rlCfg s.rlMap (.cleanup t)).1 }, "ok")
    | none => (s, "bad-op")
  | _ => (s, "bad-op")

def stName : CB.St → String
  | .closed => "C"
  | .open_ => "O"
  | .halfOpen => "H"

def cbObs (y : CB.Sys) : String :=
  s!"st={stName y.s.st} counts={y.s.failureCount},{y.s.successCount},{y.s.requestCount}"

def cbNote (s : DState) (y' : CB.Sys) : DState :=
  let ch := if s.cbSys.s.st ≠ y'.s.st then s.cbChanges ++ [stName s.cbSys.s.st ++ ">" ++ stName y'.s.st] else s.cbChanges
  { s with cbSys := y', cbChanges := ch }

def cbStep (s : DState) : List String → DState × String
  -- what `halfopen_budget` promises for every interleaving of the callers
  | ["race", _callers, _mx, _rounds] => (s, "within-budget")
  -- `never_stuck` + `lockorder_sound` / `no_callback_under_lock`: observers run with no lock held
  | ["notifyrace", _callers, _rounds] => (s, "live")
  -- `blocks_while_open` / `reopens_on_trial_failure`: after the failed trial the breaker is open with a fresh timeout
  | ["reopen", _callers, _rounds] => (s, "single-trial")
  | ["new", ft, st, mx, iv, to] =>
    match ft.toNat?, st.toNat?, mx.toNat?, iv.toNat?, to.toNat? with
    | some ft, some st, some mx, some iv, some to =>
      let c : CB.Cfg := { maxRequests := mx, interval := iv, timeout := to, failureThreshold := ft, successThreshold := st }
      ({ s with cbCfg := c.withDefaults, cbSys := {}, cbChanges := [], cbLive := true }, "ok")
    | _, _, _, _, _ => (s, "bad-op")
  | ["begin", tid, now] =>
    match tid.toNat?, now.toNat? with
    | some tid, some t =>
      if !s.cbLive || (CB.lookupTid tid s.cbSys.inflight).isSome then (s, "bad-op") else
      let r := CB.step s.cbCfg s.cbSys (.begin tid t)
      let tag := match r.2 with
        | .adm (.admitted _) => "adm"
        | .adm .rejectedOpen => "open"
        | .adm .tooMany => "toomany"
        | _ => "bad"
      (cbNote s r.1, tag ++ " " ++ cbObs r.1)
    | _, _ => (s, "bad-op")
  | ["end", tid, res, now] =>
    match tid.toNat?, now.toNat? with
    | some tid, some t =>
      if !s.cbLive then (s, "bad-op") else
      match res with
      | "ok" | "fail" | "panic" =>
        let r := CB.step s.cbCfg s.cbSys (.end_ tid (res == "ok") t)
        let tag := match r.2 with
          | .ended true => "ended"
          | _ => "unknown"
        (cbNote s r.1, tag ++ " " ++ cbObs r.1)
      | _ => (s, "bad-op")
    | _, _ => (s, "bad-op")
  | ["changes"] => (s, "changes=" ++ ",".intercalate s.cbChanges)
  | _ => (s, "bad-op")

def hexVal (c : Char) : Option Nat :=
  if '0' ≤ c ∧ c ≤ '9' then some (c.toNat - 48)
  else if 'a' ≤ c ∧ c ≤ 'f' then some (c.toNat - 87)
  else if 'A' ≤ c ∧ c ≤ 'F' then some (c.toNat - 55)
  else none

/-- percent-decoding of an op token into bytes ("-" is the empty string) -/
def unescChars : List Char → Bytes
  | [] => []
  | '%' :: a :: b :: rest =>
    match hexVal a, hexVal b with
    | some x, some y => UInt8.ofNat (x * 16 + y) :: unescChars rest
    | _, _ => (String.singleton '%').toUTF8.toList ++ unescChars (a :: b :: rest)
  | c :: rest => (String.singleton c).toUTF8.toList ++ unescChars rest

def unesc (tok : String) : Bytes := if tok == "-" then [] else unescChars tok.toList

def insertSorted (x : String) : List String → List String
  | [] => [x]
  | y :: ys => if x < y then x :: y :: ys else if x == y then y :: ys else y :: insertSorted x ys

def sec : Nat := 1000000000

def boolStr (b : Bool) : String := if b then "true" else "false"

def lbNew (w : List String) : Option LB.Sys :=
  match w with
  -- trailing "act": active health checks are switched on (with an interval no episode reaches);
  -- nothing else about the balancer depends on it
  | [strat, pas, thr, ej, rl, rmax, rref, cb, ft, st, mx, iv, to, "act"] =>
    lbNew [strat, pas, thr, ej, rl, rmax, rref, cb, ft, st, mx, iv, to]
  | [strat, pas, thr, ej, rl, rmax, rref, cb, ft, st, mx, iv, to] =>
    match thr.toInt?, ej.toNat?, rmax.toInt?, rref.toInt?, ft.toNat?, st.toNat?, mx.toNat?, iv.toNat?, to.toNat? with
    | some thr, some ej, some rmax, some rref, some ft, some st, some mx, some iv, some to =>
      let kind := (LB.kindOfName strat).getD .rr
      let rlc : Option (RL.Cfg × RL.Map) :=
        if rl == "1" then
          some ({ max := if rmax ≤ 0 then 100 else rmax.toNat,
                  refill := if rref ≤ 0 then sec else rref.toNat * sec,
                  cutoff := 3600 * sec }, RL.Map.empty)
        else none
      let cbc : Option (CB.Cfg × CB.State) :=
        if cb == "1" then
          let st' := if st = 0 then 1 else st
          let c : CB.Cfg := { maxRequests := if mx = 0 then st' else mx, interval := iv * sec, timeout := to * sec,
                              failureThreshold := ft, successThreshold := st' }
          some (c.withDefaults, {})
        else none
      some { kind := kind, hc := { passive := pas == "1", threshold := thr, ejectFor := ej * sec }, rl := rlc, cb := cbc }
    | _, _, _, _, _, _, _, _, _ => none
  | _ => none

def lbStep (s : DState) : List String → DState × String
  | "new" :: rest =>
    match lbNew rest with
    | some y => ({ s with lb := some y, lbNames := [], lbProbe := none }, "ok")
    | none => (s, "bad-op")
  | cmd :: args =>
    match s.lb with
    | none => (s, "bad-op")
    | some y =>
      match cmd, args with
      | "add", [name, wt, flag] =>
        match wt.toInt? with
        | some w =>
          let r := LB.add y name w (flag != "bad")
          if r.2 then ({ s with lb := some r.1, lbNames := insertSorted name s.lbNames }, "ok")
          else ({ s with lb := some r.1 }, "err")
        | none => (s, "bad-op")
      | "remove", [name] => ({ s with lb := some (LB.remove y name) }, "ok")
      | "strategy", [name] =>
        let r := LB.setStrategy y name
        ({ s with lb := some r.1 }, if r.2 then "ok" else "err")
      | "rrseek", [k] =>
        -- the rotation counter after k more picks (a history of billions of requests, not replayed one by one)
        match k.toNat? with
        | some k => (if y.kind == .rr then { s with lb := some { y with cur := (y.cur + k) % LB.two64 } } else s, "ok")
        | none => (s, "bad-op")
      | "pickconc", [now, _workers, _k] =>
        -- `dispatch_complete`: a pick comes back empty only if every backend is inside its window
        match now.toNat? with
        | some t => (s, if y.pool.any (fun o => !o.b.inWindow t) then "complete" else "n/a")
        | none => (s, "bad-op")
      | "ejectrace", [_now, _rounds] =>
        -- `eject_survives_expiry_check`: in either order of the two critical sections
        (s, if y.pool.isEmpty then "n/a" else "consistent")
      | "affconc", [now, _workers, _k] =>
        -- `affinity` / `hash_stateless`: the pick is a function of the client address and the pool
        match now.toNat? with
        | some t => (s, if (y.kind == .iphash || y.kind == .iphashc) && y.pool.any (fun o => !o.b.inWindow t)
                        then "stable" else "n/a")
        | none => (s, "bad-op")
      | "rrconc", [_workers, k] =>
        -- `rr_exact`: n*k atomic increments from any position give every backend exactly k picks,
        -- whatever the interleaving of the pickers
        match k.toNat? with
        | some k =>
          if y.kind == .rr && !y.pool.isEmpty && y.pool.all (·.b.healthy) then
            ({ s with lb := some { y with cur := (y.cur + y.pool.length * k) % LB.two64 } }, "exact")
          else (s, "n/a")
        | none => (s, "bad-op")
      | "list", [] =>
        let parts := y.pool.map (fun o => s!"{o.b.name}:{boolStr o.b.healthy}:{o.b.conns}:{o.b.weight}")
        (s, "list " ++ ",".intercalate parts)
      | "metrics", [] =>
        let parts := s.lbNames.filterMap (fun n => (y.bm n).map (fun m =>
          s!"{n}:{m.total}:{m.ok}:{m.failed}:{m.conns}:{boolStr m.healthy}"))
        (s, s!"metrics {y.total} {y.okCnt} {y.failed} {y.limited} " ++ ",".intercalate parts)
      | "eject", [name, now, dur] =>
        match now.toNat?, dur.toNat? with
        | some t, some d =>
          let r := LB.eject y name t d
          ({ s with lb := some r.1 }, if r.2 then "ok" else "nobackend")
        | _, _ => (s, "bad-op")
      | "probe", [name, now, res] =>
        match now.toNat? with
        | some t =>
          let r := LB.probe y name t (res == "ok")
          ({ s with lb := some r.1 }, if r.2 then "ok" else "nobackend")
        | none => (s, "bad-op")
      | "probe-begin", [name, now] =>
        match now.toNat? with
        | some t =>
          if s.lbProbe.isSome then (s, "bad-op") else
          let r := LB.probeBegin y name t
          ({ s with lb := some r.1, lbProbe := if r.2 == some true then some name else none },
           match r.2 with | none => "nobackend" | some true => "started" | some false => "skipped")
        | none => (s, "bad-op")
      | "probe-end", [name, now, res] =>
        match now.toNat? with
        | some t =>
          if s.lbProbe != some name then (s, "none-pending") else
          let r := LB.probeEnd y name t (res == "ok")
          ({ s with lb := some r.1, lbProbe := none }, "ok")
        | none => (s, "bad-op")
      | "begin", [tid, now, xff, xri, remote, "upg"] =>
        -- an upgrade offer the backend declines: limiter, breaker and dispatch see an ordinary request
        lbStep s ["begin", tid, now, xff, xri, remote]
      | "begin", [tid, now, xff, xri, remote] =>
        match tid.toNat?, now.toNat? with
        | some tid, some t =>
          if y.flights.any (·.tid = tid) then (s, "bad-op") else
          let r := LB.begin y tid t { xff := unesc xff, xri := unesc xri, remote := unesc remote }
          let o := match r.2 with
            | .limited => "resp 429"
            | .cbOpen => "resp 503"
            | .cbTooMany => "resp 429"
            | .noBackend => "resp 503"
            | .fwd n => "fwd " ++ n
          ({ s with lb := some r.1 }, o)
        | _, _ => (s, "bad-op")
      | "end", [tid, now, res] =>
        match tid.toNat?, now.toNat? with
        | some tid, some t =>
          let out : Option LB.Outcome :=
            if res == "abort" then some .abort
            else if res == "unreach" then some (.status 502)
            else (res.toNat?).map .status
          match out with
          | none => (s, "bad-op")
          | some out =>
            let r := LB.end_ y tid t out
            if !r.2 then (s, "unknown") else
            let o := match out with
              | .abort => "done aborted 200"
              | .status c => s!"done {c}"
            ({ s with lb := some r.1 }, o)
        | _, _ => (s, "bad-op")
      | _, _ => (s, "bad-op")
  | _ => (s, "bad-op")

def bytesToString (b : Bytes) : String := (String.fromUTF8? (ByteArray.mk b.toArray)).getD ""

/-- "4.<base>.<len>" | "6.<base>.<len>" | "x" -/
def parseNet (t : String) : Option Admin.Net :=
  match t.splitOn "." with
  | ["4", b, l] => match b.toNat?, l.toNat? with | some b, some l => some ⟨.v4 b, l⟩ | _, _ => none
  | ["6", b, l] => match b.toNat?, l.toNat? with | some b, some l => some ⟨.v6 b, l⟩ | _, _ => none
  | _ => none

/-- "A=str~parsed,str~parsed": none if any entry is malformed -/
def parseEntries (t : String) : Option (List Admin.Net) × Bool :=
  let body := (t.drop 2).toString
  if body == "" then (some [], false) else
  let es := body.splitOn ","
  let nets := es.map (fun e => match e.splitOn "~" with | [_, p] => parseNet p | _ => none)
  (if nets.all (·.isSome) then some (nets.filterMap id) else none, true)

def parsePeer (t : String) : Option Admin.IP :=
  match t.splitOn "." with
  | ["4", a] => a.toNat?.map .v4
  | ["6", a] => a.toNat?.map .v6
  | _ => none

def sortStrings (l : List String) : List String := l.foldl (fun acc x => insertSorted x acc) []

def admStep (s : DState) : List String → DState × String
  | ["new", tok, a, d] =>
    let pa := parseEntries a
    let pd := parseEntries d
    ({ s with admF := ⟨pa.1, pd.1, pa.2 || pd.2⟩, admTok := (bytesToString (unesc tok)).toList, admSt := {}, admReg := [] }, "ok")
  -- the add / remove handlers on a body with exactly the listed keys (an absent key is the zero value): the outcome
  -- depends on this request and the registry only
  | ["padd", n, a, w] =>
    let name := if n == "-" then "" else bytesToString (unesc n)
    let addr := if a == "-" then "" else bytesToString (unesc a)
    match (if w == "-" then some (0 : Int) else w.toInt?) with
    | none => (s, "bad-op")
    | some wt =>
      let show_ := fun (reg : List (String × Int × String)) =>
        ",".intercalate (sortStrings (reg.map (fun e => s!"{Bytes.hex e.1.toUTF8.toList}|{e.2.1}|{Bytes.hex e.2.2.toUTF8.toList}")))
      if name == "" || addr == "" || s.admReg.any (·.1 == name) then (s, "code=400 list=" ++ show_ s.admReg)
      else
        let reg := s.admReg ++ [(name, if wt < 1 then 1 else wt, addr)]
        ({ s with admReg := reg }, "code=201 list=" ++ show_ reg)
  | ["prm", n] =>
    let name := if n == "-" then "" else bytesToString (unesc n)
    let show_ := fun (reg : List (String × Int × String)) =>
      ",".intercalate (sortStrings (reg.map (fun e => s!"{Bytes.hex e.1.toUTF8.toList}|{e.2.1}|{Bytes.hex e.2.2.toUTF8.toList}")))
    if name == "" then (s, "code=400 list=" ++ show_ s.admReg)
    else
      let reg := s.admReg.filter (·.1 != name)
      ({ s with admReg := reg }, "code=200 list=" ++ show_ reg)
  | ["req", method, path, authz, _remote, peer, _xff, _xri, bk] =>
    let body : Admin.Body :=
      if bk.startsWith "add:" then
        match ((bk.drop 4).toString).splitOn ":" with
        | [n, flag] => .add (bytesToString (unesc n)) (flag != "bad")
        | _ => .bad
      else if bk.startsWith "rm:" then .remove (bytesToString (unesc (bk.drop 3).toString))
      else if bk.startsWith "st:" then .strategy (bytesToString (unesc (bk.drop 3).toString))
      else if bk == "bad" then .bad else .none
    let r : Admin.Req := { path := bytesToString (unesc path), authz := (bytesToString (unesc authz)).toList, peer := parsePeer peer }
    let res := Admin.request s.admF s.admTok s.admSt r method body
    let cls := match res.1 with
      | .forbidden => "forbidden"
      | .noRoute => "noroute"
      | .unauthorized => "unauth"
      | .served => s!"served:{res.2.1}"
    let st := res.2.2
    ({ s with admSt := st }, cls ++ " state=" ++ ",".intercalate (sortStrings st.names) ++ "|" ++ st.strategy)
  | _ => (s, "bad-op")

def escStr (s : String) : String :=
  if s.isEmpty then "-" else
  String.join (s.toUTF8.toList.map (fun b =>
    let c := Char.ofNat b.toNat
    if c.isAlphanum || c == '-' || c == '_' || c == '.' || c == '~' || c == '$' || c == '&' || c == '+' || c == ':' || c == '=' || c == '@'
    then String.singleton c
    else "%" ++ String.singleton (Bytes.hexDigit (b.toNat / 16)).toUpper ++ String.singleton (Bytes.hexDigit (b.toNat % 16)).toUpper))

def parsePlugin (p : String) : Option Http.Plugin :=
  match p.splitOn "." with
  | ["sl", mr, mp] => match mr.toNat?, mp.toNat? with | some a, some b => some (.sizeLimit a b) | _, _ => none
  | "gz" :: _lvl :: ms :: rest =>
    match ms.toNat? with
    | some m => some (.gzip m ((bytesToString (unesc (".".intercalate rest))).splitOn "|" |>.filter (· != "")))
    | none => none
  | ["log"] => some .logging
  | ["hdr"] => some (.headers [("X-V-App", "Helios")] [("X-V-From", "LB")])
  | ["auth", k] => some (.auth (bytesToString (unesc k)))
  | ["pr", id] => id.toNat?.map .probe
  | _ => none

def parseRwOp (t : String) : Option Http.Op :=
  match t.splitOn ":" with
  | ["sh", k, v] => some (.setH k (bytesToString (unesc v)))
  | ["dh", k] => some (.delH k)
  | ["wh", c] => c.toNat?.map .wh
  | ["w", n, sd] => match n.toNat?, sd.toNat? with | some n, some sd => some (.w (n, sd)) | _, _ => none
  | ["fl"] => some .fl
  | _ => none

def rwStep : List String → String
  | [chain, method, ae, key, reqlen, mode, opsTok] =>
    -- an exchange the inner handler cuts short (`ab`): only the NEXT exchange is compared — the
    -- plugin transducers keep no state between exchanges
    if (opsTok.splitOn ";").contains "ab" then "aborted" else
    let plugins := if chain == "none" then some [] else (chain.splitOn "+").mapM parsePlugin
    let ops := (opsTok.splitOn ";").mapM parseRwOp
    match plugins, ops, reqlen.toNat? with
    | some ps, some ops, some rl =>
      let hdr : Http.Hdr := (if ae == "-" then [] else [("Accept-Encoding", bytesToString (unesc ae))]) ++
        (if key == "-" then [] else [("X-Api-Key", bytesToString (unesc key))])
      let req : Http.Request := { method := method, hdr := hdr, bodyLen := rl,
                                  declared := if mode == "chunked" then none else some rl }
      -- the scripted inner handler also echoes the request header the headers plugin sets
      let inner := fun (r : Http.Request) =>
        let base := Http.scripted ops r
        match base with
        | first :: rest => if r.hdr.get "X-V-From" != "" then first :: .setH "X-V-Saw" (r.hdr.get "X-V-From") :: rest else base
        | [] => []
      let sv := Http.serve (fun b => 20 + b.len / 100) ps req [] inner
      let v := (Http.Base.run { head := method == "HEAD" } sv.1).view
      let gzPieces := v.pieces.filterMap (fun p => match p with | .gz b => some b | _ => none)
      let rawChunks := v.pieces.filterMap (fun p => match p with | .raw c => some c | _ => none)
      let body : Http.Body := match gzPieces with | b :: _ => b | [] => rawChunks
      let xh := v.hdr.filter (fun kv => kv.1.startsWith "X-V-" || kv.1 == "X-Got")
      let xhs := sortStrings (xh.map (fun kv => kv.1 ++ "=" ++ escStr kv.2))
      let tr := sv.2.map (fun e => match e with | .enter i => s!"e{i}" | .exit i => s!"x{i}" | .inner => "in")
      s!"status={v.status} ce={escStr (v.hdr.get "Content-Encoding")} ct={escStr (v.hdr.get "Content-Type")} xh={"&".intercalate xhs} body={body.len}:{body.hash.toNat} gz={if !gzPieces.isEmpty then 1 else if v.hdr.get "Content-Encoding" == "gzip" && body.len > 0 then 2 else 0} short={if v.short then 1 else 0} trace={",".intercalate tr}"
    | _, _, _ => "bad-op"
  | _ => "bad-op"

def parseVal (t v : String) : Option Http.Val :=
  let v := bytesToString (unesc v)
  match t with
  | "i" => v.toInt?.map .int
  | "f" =>
    -- truncation toward zero of a decimal like "-0.5" / "5.0" / "1024"
    match v.splitOn "." with
    | [w] => w.toInt?.map .float
    | [w, _] => (if w == "-0" || w == "-" then some (Http.Val.float 0) else w.toInt?.map .float)
    | _ => none
  | "s" => some (.str v)
  | "l" => some (.strs ((v.splitOn "|").filter (· != "")))
  | "x" => some .mixed
  | "m" => some (.smap ((v.splitOn "|").filterMap (fun e => match e.splitOn ":" with | [a, b] => some (a, b) | _ => none)))
  | "b" => some .badmap
  | "B" => some .bool
  | _ => none

def bcStep (spec : String) : String :=
  let specs := (spec.splitOn "+").mapM (fun (p : String) =>
    match p.splitOn "@" with
    | name :: kvs =>
      (kvs.mapM (fun (kv : String) => match kv.splitOn "=" with
        | [k, tv] => (match (tv : String).splitOn ":" with
          | t :: rest => (parseVal t (":".intercalate rest)).map (fun v => (k, v))
          | _ => none)
        | _ => none)).map (fun c => (name, c))
    | [] => none)
  match specs with
  | some ss => if (Http.buildChain ss).isSome then "ok" else "err"
  | none => "bad-op"

/-- Go's textproto.CanonicalMIMEHeaderKey for the header names the generator uses (ASCII tokens) -/
def canonKey (k : String) : String :=
  "-".intercalate ((k.splitOn "-").map (fun (p : String) =>
    match p.toList with
    | [] => ""
    | c :: cs => String.ofList (c.toUpper :: cs.map Char.toLower)))

/-- optional whitespace (SP, HTAB) that HTTP/1.1 header parsing removes around a value -/
def trimOWS (b : Bytes) : Bytes :=
  let f := fun (l : Bytes) => l.dropWhile (fun c => c == 32 || c == 9)
  (f (f b).reverse).reverse

def escBytes (b : Bytes) : String := if b.isEmpty then "-" else escStr (bytesToString b)

def idStep (s : DState) : List String → DState × String
  | ["new", ron, rh, ton, th, plugins, rl] =>
    let rhn := let h := (bytesToString (Addr.trimSpace (unesc rh))); if h == "" then "X-Request-ID" else h
    let thn := let h := (bytesToString (Addr.trimSpace (unesc th))); if h == "" then "X-Trace-ID" else h
    ({ s with idCfg := (ron == "1", canonKey rhn, ton == "1", canonKey thn),
              idPlugins := if plugins == "none" then [] else plugins.splitOn "+",
              idRl := if rl == "1" then some 2 else none, idEjected := false },
     "ok " ++ escStr (canonKey rhn) ++ " " ++ escStr (canonKey thn))
  | ["burst", n, _workers] =>
    -- `id_injective` + distinct CSPRNG draws: every generated identifier is distinct
    match n.toNat? with
    | none => (s, "bad-op")
    | some n =>
      let (ron, _, ton, _) := s.idCfg
      -- the optional `request-id` plugin stamps every exchange with an identifier of its own draw (under the default name)
      let per := (if ron || s.idPlugins.contains "rid" then 1 else 0) + (if ton then 1 else 0)
      ({ s with idRl := s.idRl.map (fun t => t - n) }, s!"burst ids={n * per} dups=0")
  | ["req", rid, tr, key, blen, ej, "own"] =>
    -- the backend adds identifiers of its own to its answer: the propagated one stays the client's
    idStep s ["req", rid, tr, key, blen, ej]
  | ["req", rid, tr, key, blen, ej, "ws"] =>
    -- a WebSocket opening handshake the backend declines: an ordinary request to every layer
    idStep s ["req", rid, tr, key, blen, ej]
  | ["req", rid, tr, key, blen, ej, "upg"] =>
    -- an upgrade offer the backend declines is an ordinary request to every layer
    idStep s ["req", rid, tr, key, blen, ej]
  | ["req", rid, tr, key, blen, ej] =>
    match blen.toNat? with
    | none => (s, "bad-op")
    | some n =>
      let (ron, _, ton, _) := s.idCfg
      let sup := fun (t : String) => if t == "none" then (none : Option Bytes) else some (trimOWS (unesc t))
      let r0 := Ids.handle ron (sup rid) "req".toUTF8.toList []
      let r1 := Ids.handle ton (sup tr) "trace".toUTF8.toList []
      let ejected := s.idEjected || ej == "1"
      -- which layer answers
      let rec chain : List String → Option Nat
        | [] => none
        | "auth" :: ps => if key != "k1" then some 401 else chain ps
        | "sl" :: ps => if n > 10 then some 413 else chain ps
        | _ :: ps => chain ps
      let early := chain s.idPlugins
      let (status, contacted, rl') : Nat × Bool × Option Nat :=
        match early with
        | some c => (c, false, s.idRl)
        | none =>
          match s.idRl with
          | some 0 => (429, false, some 0)
          | rl =>
            let rl' := rl.map (· - 1)
            if ejected then (503, false, rl') else (200, true, rl')
      let fmt := fun (pfx : String) (supplied : Option Bytes) (r : Option Bytes × Option Bytes) =>
        let c := match r.2 with
          | some v => if Ids.blank (supplied.getD []) then "GEN:" ++ pfx else escBytes v
          | none => "none"
        let rel :=
          if !contacted then "nobackend"
          else match r.1, r.2 with
            | some _, some _ => "same"
            | none, none => "both-absent"
            | some v, none => "backend-only:" ++ escBytes v
            | none, some _ => "DIFF:-"
        c ++ "/" ++ rel
      let h0' := fmt "req" (sup rid) r0
      let h1 := fmt "trace" (sup tr) r1
      ({ s with idRl := rl', idEjected := ejected }, s!"status={status} h0={h0'} h1={h1} dups=0")
  | _ => (s, "bad-op")

def cfgOf (fields : List (String × String)) : Cfg.Config :=
  let g := fun (k : String) => ((fields.find? (·.1 == k)).map (·.2)).getD ""
  let i := fun (k : String) => ((g k).toInt?).getD 0
  let b := fun (k : String) => g k == "1"
  let bes : List Cfg.Backend := ((g "b").splitOn ",").filterMap (fun (e : String) =>
    match e.splitOn "|" with
    | [n, a, w] => some ⟨bytesToString (unesc n), bytesToString (unesc a), (w.toInt?).getD 0⟩
    | _ => none)
  { backends := bes, port := i "port", tlsOn := b "tls", tlsCert := g "cert", tlsKey := g "key",
    tRead := i "tr", tWrite := i "tw", tIdle := i "ti", tHandler := i "th", tShutdown := i "ts", tDial := i "td",
    tBRead := i "tbr", tBIdle := i "tbi", strategy := g "strat", wsOn := b "ws", wsMaxIdle := i "wsi",
    wsMaxActive := i "wsa", wsIdleTimeout := i "wst", actOn := b "act", actInterval := i "ai", actTimeout := i "at",
    actPath := g "ap", pasOn := b "pas", pasThreshold := i "pt", pasTimeout := i "pto", rlOn := b "rl", rlMax := i "rlm",
    rlRefill := i "rlr", cbOn := b "cb", cbMax := i "cbm", cbInterval := i "cbi", cbTimeout := i "cbt",
    cbFailure := i "cbf", cbSuccess := i "cbs", metOn := b "met", metPort := i "mp", metPath := g "mpa",
    admOn := b "adm", admPort := i "admp", logLevel := g "ll", logFormat := g "lf" }

def cfgStep (compact : String) : String :=
  let fields := (compact.splitOn ";").filterMap (fun (kv : String) =>
    match kv.splitOn "=" with
    | k :: rest => some (k, "=".intercalate rest)
    | _ => none)
  let c := cfgOf fields
  match Cfg.validate c with
  | some n => s!"load=err:{n}"
  | none =>
    -- startup: duplicate backend names are refused by AddBackend; the plugin chain must build
    let names := c.backends.map (·.name)
    let dup := names.length != names.eraseDups.length
    let pl := ((fields.find? (·.1 == "pl")).map (·.2)).getD "none"
    let plOk := pl == "none" || bcStep pl == "ok"
    if dup || !plOk then "load=ok start=err" else "load=ok start=ok"

/-- `lb wire`: what the balancer makes of a breaker configuration — rejected by validation, or
the effective settings (`setupCircuitBreaker`: max_requests 0 means success_threshold) -/
def wireStep (mx iv to ft st : String) : String :=
  let c := cfgOf [("b", "s1|http://127.0.0.1:9|1"), ("port", "8080"), ("strat", "round_robin"), ("cb", "1"),
                  ("cbm", mx), ("cbi", iv), ("cbt", to), ("cbf", ft), ("cbs", st)]
  match Cfg.validate c with
  | some _ => "rejected"
  | none =>
    -- `Wire.cbEff`: what `setupCircuitBreaker` constructs the breaker with (CodeTie.setupCircuitBreaker_refines)
    match Wire.cbEff c with
    | [m, iv, tmo, ft, st] => s!"eff {m} {iv} {tmo} {ft} {st}"
    | _ => "bad-op"

/-- `lb wireall`: validation, then the numbers each feature runs with (documented defaults for
the values validation lets be zero) -/
def wireAllStep (a : List String) : String :=
  match a.mapM String.toInt? with
  | some [ai, atm, pt, pto, rlm, rlr, wsi, wsa, wst, tbr, tbi] =>
    let c := cfgOf [("b", "s1|http://127.0.0.1:9|1"), ("port", "8080"), ("strat", "round_robin"),
      ("act", "1"), ("ai", toString ai), ("at", toString atm), ("ap", "/health"), ("pas", "1"), ("pt", toString pt), ("pto", toString pto),
      ("rl", "1"), ("rlm", toString rlm), ("rlr", toString rlr), ("ws", "1"), ("wsi", toString wsi), ("wsa", toString wsa), ("wst", toString wst),
      ("tbr", toString tbr), ("tbi", toString tbi)]
    match Cfg.validate c with
    | some _ => "rejected"
    | none =>
      let sec := (1000000000 : Int)
      let d := fun (v dflt : Int) => if v == 0 then dflt else v
      -- `Wire.hcEff / rlEff / wsEff`: what createHealthChecker / setupRateLimiter / setupWebSocketPool construct with
      let hc := Wire.hcEff c
      match Wire.rlEff c, Wire.wsEff c with
      | [erlm, erlr], [ewsi, ewsa, ewst] =>
        s!"eff ai={hc.2.1} at={hc.2.2.1} pt={hc.2.2.2.2.2.1} pto={hc.2.2.2.2.2.2} rlm={erlm} rlr={erlr} wsi={ewsi} wsa={ewsa} wst={ewst} tbr={d tbr 30 * sec} tbi={d tbi 90 * sec}"
      | _, _ => "bad-op"
  | _ => "bad-op"

def closedStr (p : Pool.State) : String :=
  let ids := p.closed.eraseDups
  let sorted := ids.foldl (fun acc x => (acc.filter (· < x)) ++ [x] ++ (acc.filter (· > x))) ([] : List Nat)
  "closed=" ++ ",".intercalate (sorted.map toString)

def poolStep (s : DState) : List String → DState × String
  | ["new", mi, to] =>
    match mi.toNat?, to.toNat? with
    | some mi, some to => ({ s with pool := some { maxIdle := mi, timeout := to } }, "ok")
    | _, _ => (s, "bad-op")
  | cmd :: args =>
    match s.pool with
    | none => (s, "bad-op")
    | some p =>
      match cmd, args with
      | "get", [b, now] =>
        match now.toNat? with
        | some t =>
          let r := Pool.get p b t
          ({ s with pool := some r.1 }, (match r.2 with | some c => s!"conn {c} " | none => "none ") ++ closedStr r.1)
        | none => (s, "bad-op")
      | "put", [b, c, now] =>
        match c.toNat?, now.toNat? with
        | some c, some t =>
          let r := Pool.put p b c t
          ({ s with pool := some r.1 }, (if r.2 then "true " else "false ") ++ closedStr r.1)
        | _, _ => (s, "bad-op")
      | "close", [b, c] =>
        match c.toNat? with
        | some c => let p' := Pool.close p b c; ({ s with pool := some p' }, "ok " ++ closedStr p')
        | none => (s, "bad-op")
      | "cleanup", [now] =>
        match now.toNat? with
        | some t => let p' := Pool.cleanup p t; ({ s with pool := some p' }, "ok " ++ closedStr p')
        | none => (s, "bad-op")
      | "shutdown", [] => let p' := Pool.shutdown p; ({ s with pool := some p' }, "ok " ++ closedStr p')
      | "stats", [b] => let st := Pool.stats p b; (s, s!"stats {st.1} {st.2}")
      | _, _ => (s, "bad-op")
  | _ => (s, "bad-op")


/-! ### C01: `px` exchanges, directly or through Helios -/

/-- stable insertion by key -/
def insertByKey (x : String × String) : List (String × String) → List (String × String)
  | [] => [x]
  | y :: ys => if x.1 < y.1 then x :: y :: ys else y :: insertByKey x ys

def sortByKey (l : List (String × String)) : List (String × String) :=
  l.foldl (fun acc x => insertByKey x acc) []

def stripIdx (k : String) : String := (k.splitOn "#").headD k

/-- canonical `k=v&k=v` of the X-V-* headers -/
def xvCanon (h : List (String × String)) : String :=
  let xs := (sortByKey (h.map (fun kv => (stripIdx kv.1, kv.2)))).filter (fun kv => kv.1.startsWith "X-V-")
  if xs.isEmpty then "-" else "&".intercalate (xs.map (fun kv => escStr kv.1 ++ "=" ++ escStr kv.2))

/-- backend script: `sh:K:V`, `ah:K:V` (Add: encoded as a distinct key `K#n`), `wh:c`, `w:n:s`, `fl`, `sl:ms` -/
def parsePxOps (toks : List String) : Option (List Http.Op) :=
  let rec go : List String → Nat → Option (List Http.Op)
    | [], _ => some []
    | t :: rest, n =>
      match t.splitOn ":" with
      | ["sl", _] => go rest n
      | ["ah", k, v] => (go rest (n + 1)).map (fun r => Http.Op.setH (canonKey k ++ "#" ++ toString n) (bytesToString (unesc v)) :: r)
      | ["sh", k, v] => (go rest n).map (fun r => Http.Op.setH (canonKey k) (bytesToString (unesc v)) :: r)
      | _ => match parseRwOp t with
        | some o => (go rest n).map (fun r => o :: r)
        | none => none
  go toks 0

def parsePxHdrs (tok : String) : List (String × String) :=
  if tok == "-" then [] else
  (tok.splitOn "&").filterMap (fun kv =>
    match kv.splitOn "=" with
    | k :: rest => some (canonKey (bytesToString (unesc k)), bytesToString (unesc ("=".intercalate rest)))
    | [] => none)

def trimOWSs (s : String) : String := bytesToString (trimOWS s.toUTF8.toList)

def pxStep (s : DState) : List String → DState × String
  | ["new", _strategy, ids, base] =>
    match ids.toList with
    | [a, b] => ({ s with pxIds := (a == '1', b == '1'), pxBase := if base == "-" then "" else bytesToString (unesc base) }, "ok")
    | _ => (s, "bad-op")
  | ["new", _strategy, ids, base, _features] =>
    -- breaker / limiter / passive checks / logging plugin switched on with thresholds no episode
    -- reaches: `via_transparent` does not depend on them
    match ids.toList with
    | [a, b] => ({ s with pxIds := (a == '1', b == '1'), pxBase := if base == "-" then "" else bytesToString (unesc base) }, "ok")
    | _ => (s, "bad-op")
  | ["conc", n, _len] =>
    -- concurrent exchanges do not interact: each client reads the body the backend wrote for it
    match n.toNat? with
    | some k => (s, s!"conc ok {k}")
    | none => (s, "bad-op")
  | ["close"] => (s, "ok")
  | ["x", mode, method, target, hdrs, reqlen, framing, script] =>
    match parsePxOps (script.splitOn ";"), reqlen.toNat? with
    | some ops, some rl =>
      let head := method == "HEAD"
      let b := Http.Base.run { head := head } ops
      let sent := parsePxHdrs hdrs
      let via := mode == "via"
      let cfg : Proxy.IdCfg := { reqOn := via && s.pxIds.1, traceOn := via && s.pxIds.2 }
      let supplied := fun (name : String) => trimOWSs (((sent.find? (·.1 == name)).map (·.2)).getD "")
      let ids : Proxy.Ids := Proxy.idsFor cfg { req := "GEN", trace := "GEN" }
        [(cfg.reqName, supplied cfg.reqName), (cfg.traceName, supplied cfg.traceName)]
      let c := if via then Proxy.via cfg ids b else b
      let v := c.view
      let rawChunks := v.pieces.filterMap (fun p => match p with | .raw ch => some ch | _ => none)
      let body : Http.Body := rawChunks
      let idc := fun (on : Bool) (name : String) (value : String) =>
        if !on then "off"
        else if v.hdr.get name != value then "MISSING-resp"
        else if Proxy.blank (supplied name) then "gen" else "sup"
      let xff := (sent.filter (·.1 == "X-Forwarded-For")).map (·.2)
      let fwd := if via then ", ".intercalate (xff ++ ["127.0.0.1"]) else ",".intercalate xff
      let uri := if s.pxBase == "" then escStr target else "*"
      let reqBody : Http.Body := if rl == 0 then [] else [(rl, 7)]
      let breq := s!"{method}|{uri}|{xvCanon sent}|{if framing == "chunked" then "chunked" else "cl"}|{rl}:{reqBody.hash.toNat}|fwd:{if fwd == "" then "-" else escStr fwd}"
      (s, s!"px status={v.status} xv={xvCanon v.hdr} body={body.len}:{body.hash.toNat} short={if v.short then 1 else 0} interim={",".intercalate ("-" :: c.interim.map toString)} ids={idc cfg.reqOn cfg.reqName ids.req}/{idc cfg.traceOn cfg.traceName ids.trace} breq={breq}")
    | _, _ => (s, "bad-op")
  | _ => (s, "bad-op")

def step (s : DState) (line : String) : DState × String :=
  match words line with
  | ["rws", "-"] => ({ s with rwChain := none }, "ok")
  | ["rws", chain] =>
    if chain == "none" || ((chain.splitOn "+").mapM parsePlugin).isSome then ({ s with rwChain := some chain }, "ok") else (s, "bad-op")
  | "rw" :: "@" :: rest => (s, match s.rwChain with | some c => rwStep (c :: rest) | none => "bad-op")
  | "rw" :: rest => (s, rwStep rest)
  | "px" :: rest => pxStep s rest
  -- C03: what the theorems promise for every fault history (Helios.LB.recovers, the C13
  -- conservation theorems, lockorder_sound) and the timeouts fact for every single request
  | ["ft", "new", _, _, _, _, _] => (s, "ok")
  | ["ft", "close"] => (s, "ok")
  | ["ft", "wait", _] => (s, "ok")
  | ["ft", "health", _] => (s, "ok")
  | ["ft", "req", _] => (s, "ended=1")
  | ["ft", "conc", n, faults] =>
    (match n.toNat? with
     | some k => (s, s!"ended={k * (faults.splitOn ",").length}")
     | none => (s, "bad-op"))
  | ["ft", "probe"] => (s, "probe=200 gauge=0 acct=1")
  | "pool" :: rest => poolStep s rest
  | ["stop", _nb, _pm, _du, _st, pool] =>
    -- what the protocol theorems (Helios.Shut.stop_safe / stop_no_deadlock) promise for every schedule
    (s, "stop returned within=true late=0" ++ (if pool == "1" || pool == "2" then " pooledClosed=true" else ""))
  -- `stop_safe` + fact `gracefulStopAlways`: the balancer is stopped on every path of the shutdown
  | ["gs", _stuck] => (s, "gs returned probesAfter=0")
  -- the model's components read the configuration; none of them writes it
  | ["startup", level] => (s, "config-unchanged level=" ++ (if level == "-" then "info" else level))
  -- loading keeps every string value as the file has it: the expected values travel with the op
  | ["cfgval", _path, expect] => (s, " ".intercalate (expect.splitOn ";"))
  -- loading is reading + decoding + validating: `validate` returns a verdict, never a changed configuration
  | ["cfgfid", _path] => (s, "same")
  -- `affinity` / `hash_stateless`: under the hash strategies the pick is a function of the attributed client
  -- address and the pool; source ports, other headers and the layers in front of the balancer play no part
  | ["aff", strat, _nb, _ids, _pl, _n] =>
    (s, if strat == "ip_hash" || strat == "ip_hash_consistent" then "aff direct=1 direct6=1 xff=1 real=1" else "bad-op")
  | ["srvwire", r, w, i] =>
    match r.toInt?, w.toInt?, i.toInt? with
    | some r, some w, some i =>
      let c := cfgOf [("b", "s1|http://127.0.0.1:9|1"), ("port", "8080"), ("tr", toString r), ("tw", toString w), ("ti", toString i)]
      (match Cfg.validate c with
       | some _ => (s, "rejected")
       | none =>
         let d := fun (v dflt : Int) => (if v == 0 then dflt else v) * 1000000000
         (s, s!"eff r={d r 15} w={d w 15} i={d i 60}"))
    | _, _, _ => (s, "bad-op")
  | ["wshold", _variant, _hs, _hm] => (s, "ws ok 1")
  | ["ws", _chain, sizes] => (s, s!"ws ok {(sizes.splitOn ",").length}")
  | ["cfg", _path, compact] => (s, cfgStep compact)
  | ["cfgfile", _path] => (s, "load=ok start=ok")
  | "id" :: rest => idStep s rest
  | ["bc", spec] => (s, bcStep spec)
  | "adm" :: rest => admStep s rest
  | "rl" :: rest => rlStep s rest
  | "cb" :: rest => cbStep s rest
  | ["lb", "wire", mx, iv, to, ft, st] => (s, wireStep mx iv to ft st)
  | "lb" :: "wireall" :: rest => (s, wireAllStep rest)
  | "lb" :: rest => lbStep s rest
  | ["hash", "jump", k, n] =>
    match k.toNat?, n.toNat? with
    | some k, some n =>
      if n ≥ 1 ∧ k < 18446744073709551616 then (s, toString (Hash.jumpHash (UInt64.ofNat k) n)) else (s, "bad-op")
    | _, _ => (s, "bad-op")
  | ["hash", "fnv", tok] => (s, toString (Hash.fnv1a (unesc tok)).toNat)
  | _ => (s, "bad-op")

partial def loop (h : IO.FS.Stream) (out : IO.FS.Stream) (s : DState) : IO Unit := do
  let line ← h.getLine
  if line.isEmpty then return ()
  let l := (line.dropEndWhile (fun c => c == '\n' || c == '\r')).toString
  if l.startsWith "#" || l.isEmpty then
    loop h out s
  else
    let (s', o) := step s l
    out.putStrLn o
    loop h out s'

def main : IO Unit := do
  let stdin ← IO.getStdin
  let stdout ← IO.getStdout
  loop stdin stdout {}
  stdout.flush

end Helios.Driver
