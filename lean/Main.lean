import Helios.Driver
def main : IO Unit := Helios.Driver.main
