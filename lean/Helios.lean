-- This module serves as the root of the `Helios` library.
-- Import modules here that should be built as part of the library.
import Helios.Basic
