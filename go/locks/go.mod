module verif/locks

go 1.20
