// Command locks re-derives, from the Go source of Helios as it is now, the synchronisation
// facts the C12 theorems are instantiated with, and prints them as a Lean module
// (Helios/Generated/Locks.lean):
//
//   - every access (read / write / atomic) to a field of a struct declared in the analysed
//     packages, together with the locks that are certainly held at that point (must-hold set:
//     locks taken in the function itself intersected over control-flow joins, plus the locks
//     held at *every* call site of an unexported helper);
//   - every lock acquisition together with the locks that may be held at that point (may-hold
//     set: union over call sites, through interface and cross-package calls), as lock-order
//     edges between lock classes;
//   - every call through a function value made while a lock may be held;
//   - the callees that receive function literals which the analysis treats as called
//     synchronously, and everything the analysis could not handle (problems).
//
// go/parser + go/types with the "source" importer: standard library only.
package main

import (
	"fmt"
	"go/ast"
	"go/importer"
	"go/parser"
	"go/token"
	"go/types"
	"os"
	"path/filepath"
	"sort"
	"strings"
)

const modPath = "github.com/0xReLogic/Helios/"

var pkgDirs = []string{
	"internal/loadbalancer", "internal/circuitbreaker", "internal/ratelimiter",
	"internal/metrics", "internal/logging", "internal/plugins", "internal/adminapi",
	"internal/config", "internal/utils", "internal/proxy", "cmd/helios",
}

type lockRef struct {
	Class string // "Type.field" or "pkg.var"
	Inst  string // textual instance expression of the owner ("backend", "cb", "p", "" for globals)
	Mode  string // "W" | "R"
}

type heldSet []lockRef

func (h heldSet) clone() heldSet { return append(heldSet(nil), h...) }
func (h heldSet) has(l lockRef) bool {
	for _, x := range h {
		if x == l {
			return true
		}
	}
	return false
}
func (h heldSet) remove(class, inst, mode string) (heldSet, bool) {
	for i := len(h) - 1; i >= 0; i-- {
		if h[i].Class == class && h[i].Inst == inst && h[i].Mode == mode {
			return append(h[:i:i], h[i+1:]...), true
		}
	}
	return h, false
}
func isNeg(l lockRef) bool { return strings.HasPrefix(l.Mode, "-") }

// intersect: locks held on both paths; release markers ("-W"/"-R": a lock of the caller
// released here) from either path.
func intersect(a, b heldSet) heldSet {
	var out heldSet
	for _, x := range a {
		if b.has(x) || isNeg(x) {
			out = append(out, x)
		}
	}
	for _, x := range b {
		if isNeg(x) && !out.has(x) {
			out = append(out, x)
		}
	}
	return out
}

// effective combines the locks held on entry with the local set: entry locks released
// locally are dropped, release markers never appear in the result.
func effective(entry, local heldSet, classOnly bool) heldSet {
	var out heldSet
	for _, e := range entry {
		dropped := false
		for _, l := range local {
			if isNeg(l) && l.Class == e.Class && l.Mode == "-"+e.Mode && (classOnly || l.Inst == e.Inst) {
				dropped = true
			}
		}
		if !dropped && !out.has(e) {
			out = append(out, e)
		}
	}
	for _, l := range local {
		if !isNeg(l) && !out.has(l) {
			out = append(out, l)
		}
	}
	return out
}
func union(a, b heldSet) heldSet {
	out := a.clone()
	for _, x := range b {
		if !out.has(x) {
			out = append(out, x)
		}
	}
	return out
}

type access struct {
	Struct, Field, Kind string // Kind: R | W | A (atomic)
	Recv                string // receiver expression text
	Fresh               bool   // object created in this function and no goroutine started yet
	BaseParam           int    // index of the parameter the receiver expression is rooted at (-1 receiver, -2 none)
	GoSeen              bool   // a goroutine was started earlier in this function
	Func                string
	Line                int
	Held                heldSet // must-hold, local part (entry part added after the fixpoint)
}

type acquire struct {
	Lock lockRef
	Func string
	Line int
	Held heldSet // may-hold, local part
}

type callSite struct {
	Caller   string
	Callees  []string // resolved targets (full names)
	Dynamic  string   // non-empty: call through a function value (expression text)
	Line     int
	Held     heldSet           // local held at the call
	Rename   map[string]string // caller instance expr -> callee instance name
	ArgFresh map[int]argInfo   // -1 receiver, i argument i
}

// argInfo: is the object passed certainly unshared at the call? either created here (Fresh) or
// itself a parameter of the caller (Param) whose freshness the fixpoint decides.
type argInfo struct {
	Fresh bool
	Param int // -2: not a parameter
}

type funcInfo struct {
	Name     string
	Exported bool
	Escapes  bool // referenced as a value / started with go / method of an exported API
	Accesses []access
	Acquires []acquire
	Calls    []callSite
	Blocks   []blockSite // operations that wait for another goroutine
	Shared   []string    // guarded slices / maps returned without a copy
}

// blockSite: a channel receive or send outside a select, or a WaitGroup / Cond wait: the goroutine stops until
// another goroutine acts. Done while a lock is held, the other goroutine must never need that lock.
type blockSite struct {
	Op   string
	Held heldSet
}

var (
	fset          = token.NewFileSet()
	funcs         = map[string]*funcInfo{}
	problems      []string
	syncLits      = map[string]bool{}
	tracked       = map[string]bool{}     // package paths analysed
	methodsByName = map[string][]string{} // method name -> full names (for interface dispatch)
	ifaceImpl     = map[string][]string{}
)

func problem(format string, a ...interface{}) {
	problems = append(problems, fmt.Sprintf(format, a...))
}

func exprText(e ast.Expr) string {
	switch v := e.(type) {
	case *ast.Ident:
		return v.Name
	case *ast.SelectorExpr:
		return exprText(v.X) + "." + v.Sel.Name
	case *ast.StarExpr:
		return exprText(v.X)
	case *ast.ParenExpr:
		return exprText(v.X)
	case *ast.UnaryExpr:
		return exprText(v.X)
	case *ast.IndexExpr:
		return exprText(v.X) + "[]"
	case *ast.CallExpr:
		return exprText(v.Fun) + "()"
	case *ast.TypeAssertExpr:
		return exprText(v.X)
	}
	return "?"
}

func namedOf(t types.Type) *types.Named {
	for {
		switch v := t.(type) {
		case *types.Pointer:
			t = v.Elem()
		case *types.Named:
			return v
		default:
			return nil
		}
	}
}

func isSyncType(t types.Type, names ...string) bool {
	n := namedOf(t)
	if n == nil || n.Obj().Pkg() == nil {
		return false
	}
	p := n.Obj().Pkg().Path()
	if p != "sync" && p != "sync/atomic" {
		return false
	}
	if len(names) == 0 {
		return true
	}
	for _, x := range names {
		if n.Obj().Name() == x {
			return true
		}
	}
	return false
}

func funcFullName(f *types.Func) string {
	if f == nil {
		return ""
	}
	sig, _ := f.Type().(*types.Signature)
	pk := ""
	if f.Pkg() != nil {
		pk = strings.TrimPrefix(f.Pkg().Path(), modPath)
	}
	if sig != nil && sig.Recv() != nil {
		if n := namedOf(sig.Recv().Type()); n != nil {
			return pk + "." + n.Obj().Name() + "." + f.Name()
		}
		// interface method
		return pk + ".(iface)." + f.Name()
	}
	return pk + "." + f.Name()
}

type walker struct {
	info     *types.Info
	pkg      *types.Package
	fn       *funcInfo
	fresh    map[types.Object]bool
	goSeen   bool
	recvNm   string
	params   map[string]bool
	inDefer  bool
	paramIdx map[types.Object]int
	base     heldSet         // locks held when the body being walked was entered (a literal run in place)
	deferred map[string]bool // class|inst|mode of locks whose release has been deferred in this body
	deferAll bool            // a deferred call releases the caller's lock (unlockAndNotify)
	inComm   bool            // walking the communication of a select case (one alternative among several)
}

// leakedAt: locks taken in the body being walked that are still held, with no deferred release,
// at a point where the body returns
func (w *walker) leakedAt(held heldSet) []string {
	var out []string
	if w.deferAll {
		return nil
	}
	for _, l := range held {
		if isNeg(l) || w.base.has(l) || w.deferred[l.Class+"|"+l.Inst+"|"+l.Mode] {
			continue
		}
		out = append(out, l.Class)
	}
	return out
}

var releasers = map[string]bool{}

// lockOf resolves X in X.Lock() to a lock class and instance.
func (w *walker) lockOf(x ast.Expr) (class, inst string, ok bool) {
	switch v := x.(type) {
	case *ast.SelectorExpr:
		if sel, found := w.info.Selections[v]; found && sel.Kind() == types.FieldVal {
			owner := namedOf(sel.Recv())
			on := "?"
			if owner != nil {
				on = owner.Obj().Name()
			}
			return on + "." + v.Sel.Name, exprText(v.X), true
		}
		// package-qualified global
		if obj, found := w.info.Uses[v.Sel]; found {
			if vr, isVar := obj.(*types.Var); isVar && vr.Pkg() != nil {
				return strings.TrimPrefix(vr.Pkg().Path(), modPath) + "." + vr.Name(), "", true
			}
		}
	case *ast.Ident:
		if obj, found := w.info.Uses[v]; found {
			if vr, isVar := obj.(*types.Var); isVar && vr.Pkg() != nil && vr.Parent() == vr.Pkg().Scope() {
				return strings.TrimPrefix(vr.Pkg().Path(), modPath) + "." + vr.Name(), "", true
			}
			return "local." + v.Name, v.Name, true
		}
	}
	return "", "", false
}

// lockCall recognises X.Lock / RLock / Unlock / RUnlock on sync.Mutex / RWMutex.
func (w *walker) lockCall(e ast.Expr) (op string, x ast.Expr, ok bool) {
	c, isCall := e.(*ast.CallExpr)
	if !isCall {
		return
	}
	s, isSel := c.Fun.(*ast.SelectorExpr)
	if !isSel {
		return
	}
	switch s.Sel.Name {
	case "Lock", "RLock", "Unlock", "RUnlock":
	default:
		return
	}
	tv, found := w.info.Types[s.X]
	if !found || !isSyncType(tv.Type, "Mutex", "RWMutex") {
		return
	}
	return s.Sel.Name, s.X, true
}

func (w *walker) recordAccess(sel *ast.SelectorExpr, kind string, held heldSet) {
	s, found := w.info.Selections[sel]
	if !found || s.Kind() != types.FieldVal {
		return
	}
	fld, _ := s.Obj().(*types.Var)
	if fld == nil || fld.Pkg() == nil || !tracked[fld.Pkg().Path()] {
		return
	}
	if isSyncType(fld.Type()) && kind != "W" {
		return // internally synchronised (Mutex, RWMutex, WaitGroup, Map, Pool, atomic.*)
	}
	owner := namedOf(s.Recv())
	on := "?"
	if owner != nil {
		on = owner.Obj().Name()
	}
	// embedded promotion: attribute to the struct that declares the field
	if len(s.Index()) > 1 {
		t := s.Recv()
		for _, i := range s.Index()[:len(s.Index())-1] {
			if p, isPtr := t.Underlying().(*types.Pointer); isPtr {
				t = p.Elem()
			}
			st, isStruct := t.Underlying().(*types.Struct)
			if !isStruct {
				break
			}
			t = st.Field(i).Type()
		}
		if n := namedOf(t); n != nil {
			on = n.Obj().Name()
		}
	}
	ai := w.argInfoOf(sel.X)
	w.fn.Accesses = append(w.fn.Accesses, access{
		Struct: on, Field: sel.Sel.Name, Kind: kind, Recv: exprText(sel.X), Fresh: ai.Fresh, BaseParam: ai.Param, GoSeen: w.goSeen,
		Func: w.fn.Name, Line: fset.Position(sel.Pos()).Line, Held: held.clone(),
	})
}

// argInfoOf classifies the object an expression is rooted at.
func (w *walker) argInfoOf(e ast.Expr) argInfo {
	base := baseIdent(e)
	if base == nil {
		return argInfo{false, -2}
	}
	obj := w.info.Uses[base]
	if obj == nil {
		obj = w.info.Defs[base]
	}
	if obj == nil {
		return argInfo{false, -2}
	}
	if w.fresh[obj] {
		// a local struct value is a private copy whatever happened before; a fresh pointer is
		// unshared only until the function starts a goroutine
		if _, isPtr := obj.Type().Underlying().(*types.Pointer); !isPtr || !w.goSeen {
			return argInfo{true, -2}
		}
		return argInfo{false, -2}
	}
	if i, ok := w.paramIdx[obj]; ok && !w.goSeen {
		return argInfo{false, i}
	}
	return argInfo{false, -2}
}

// recordGlobal records an access to a package-level variable of an analysed package
// (Struct = "<pkg>", Field = variable name).
func (w *walker) recordGlobal(id *ast.Ident, kind string, held heldSet) {
	obj, ok := w.info.Uses[id].(*types.Var)
	if !ok || obj.Pkg() == nil || !tracked[obj.Pkg().Path()] || obj.IsField() || obj.Parent() != obj.Pkg().Scope() {
		return
	}
	if isSyncType(obj.Type()) && kind != "W" {
		return
	}
	w.fn.Accesses = append(w.fn.Accesses, access{
		Struct: "var", Field: strings.TrimPrefix(obj.Pkg().Path(), modPath) + "." + obj.Name(), Kind: kind, Recv: "",
		Fresh: false, BaseParam: -2, GoSeen: w.goSeen, Func: w.fn.Name, Line: fset.Position(id.Pos()).Line, Held: held.clone(),
	})
}

func baseIdent(e ast.Expr) *ast.Ident {
	for {
		switch v := e.(type) {
		case *ast.Ident:
			return v
		case *ast.SelectorExpr:
			e = v.X
		case *ast.StarExpr:
			e = v.X
		case *ast.ParenExpr:
			e = v.X
		case *ast.IndexExpr:
			e = v.X
		case *ast.UnaryExpr:
			e = v.X
		default:
			return nil
		}
	}
}

// writeTarget records the field written by an assignment to lhs.
func (w *walker) writeTarget(lhs ast.Expr, held heldSet) {
	switch v := lhs.(type) {
	case *ast.SelectorExpr:
		w.recordAccess(v, "W", held)
		w.expr(v.X, held)
	case *ast.IndexExpr: // m.f[k] = v  writes the container held in f
		if s, ok := v.X.(*ast.SelectorExpr); ok {
			w.recordAccess(s, "W", held)
			w.expr(s.X, held)
		} else if id, ok := v.X.(*ast.Ident); ok {
			w.recordGlobal(id, "W", held)
		} else {
			w.expr(v.X, held)
		}
		w.expr(v.Index, held)
	case *ast.StarExpr:
		w.expr(v.X, held)
	case *ast.ParenExpr:
		w.writeTarget(v.X, held)
	case *ast.Ident:
		w.recordGlobal(v, "W", held)
	default:
		w.expr(lhs, held)
	}
}

func (w *walker) resolveCallees(c *ast.CallExpr) (callees []string, dynamic string, recvExpr ast.Expr) {
	switch f := c.Fun.(type) {
	case *ast.Ident:
		if obj, ok := w.info.Uses[f]; ok {
			switch o := obj.(type) {
			case *types.Func:
				return []string{funcFullName(o)}, "", nil
			case *types.Var:
				return nil, f.Name, nil
			}
		}
	case *ast.SelectorExpr:
		if sel, ok := w.info.Selections[f]; ok {
			switch sel.Kind() {
			case types.MethodVal:
				fn := sel.Obj().(*types.Func)
				if _, isIface := sel.Recv().Underlying().(*types.Interface); isIface {
					var out []string
					iface := sel.Recv().Underlying().(*types.Interface)
					for _, m := range methodsByName[fn.Name()] {
						if implementsByName(m, iface) {
							out = append(out, m)
						}
					}
					if fn.Pkg() != nil && !tracked[fn.Pkg().Path()] {
						return nil, "", f.X // foreign interface (http.ResponseWriter, ...): not followed
					}
					return out, "", f.X
				}
				return []string{funcFullName(fn)}, "", f.X
			case types.FieldVal:
				return nil, exprText(f), nil // function-valued field
			}
		}
		if obj, ok := w.info.Uses[f.Sel]; ok { // pkg.Func
			if fn, isFn := obj.(*types.Func); isFn {
				return []string{funcFullName(fn)}, "", nil
			}
			if _, isVar := obj.(*types.Var); isVar {
				return nil, exprText(f), nil
			}
		}
	case *ast.FuncLit:
		return nil, "", nil // immediately invoked literal: body walked in place
	case *ast.ParenExpr, *ast.ArrayType, *ast.MapType, *ast.StarExpr, *ast.InterfaceType, *ast.ChanType, *ast.FuncType:
		return nil, "", nil
	}
	return nil, "", nil
}

// implementsByName: the receiver type of method `full` has a method for every method name of
// the interface (name-based so that it is independent of which type-checker universe the
// interface came from; over-approximates, which is the safe direction for may-hold edges).
func implementsByName(full string, iface *types.Interface) bool {
	i := strings.LastIndex(full, ".")
	typ := full[:i]
	for k := 0; k < iface.NumMethods(); k++ {
		if !typeMethods[typ][iface.Method(k).Name()] {
			return false
		}
	}
	return true
}

var typeMethods = map[string]map[string]bool{}

// mutatingName: method names that change their receiver's state (by convention of the standard
// library types Helios stores in fields: hash.Hash, bytes.Buffer, bufio.Writer, maps wrappers)
func mutatingName(m string) bool {
	for _, p := range []string{"Write", "Reset", "Set", "Add", "Delete", "Store", "Swap", "Push", "Pop", "Grow", "Truncate", "Append", "Insert", "Remove", "Clear", "Inc", "Dec"} {
		if strings.HasPrefix(m, p) {
			return true
		}
	}
	return false
}

// foreignSafe: foreign types documented as safe for concurrent use, or per-request objects
func foreignSafe(t types.Type) bool {
	s := t.String()
	for _, p := range []string{"net/http.ResponseWriter", "github.com/rs/zerolog", "net/http/httputil.ReverseProxy", "net/http.Server", "context.", "net/http.Header"} {
		if strings.Contains(s, p) {
			return true
		}
	}
	return false
}

func (w *walker) isConversion(c *ast.CallExpr) bool {
	tv, ok := w.info.Types[c.Fun]
	return ok && tv.IsType()
}

func (w *walker) call(c *ast.CallExpr, held heldSet) {
	if sel, ok := c.Fun.(*ast.SelectorExpr); ok && sel.Sel.Name == "Sleep" && len(c.Args) == 1 {
		if id, isId := sel.X.(*ast.Ident); isId {
			if pn, isPkg := w.info.Uses[id].(*types.PkgName); isPkg && pn.Imported().Path() == "time" {
				w.fn.Blocks = append(w.fn.Blocks, blockSite{Op: "sleeps", Held: held.clone()})
			}
		}
	}
	if sel, ok := c.Fun.(*ast.SelectorExpr); ok && sel.Sel.Name == "Wait" && len(c.Args) == 0 {
		if tv, have := w.info.Types[sel.X]; have && (isSyncType(tv.Type, "WaitGroup") || isSyncType(tv.Type, "Cond")) {
			w.fn.Blocks = append(w.fn.Blocks, blockSite{Op: "waits for " + exprText(sel.X), Held: held.clone()})
		}
	}
	// atomic.Op(&x.f, ...)
	if s, ok := c.Fun.(*ast.SelectorExpr); ok {
		if id, isId := s.X.(*ast.Ident); isId {
			if pn, isPkg := w.info.Uses[id].(*types.PkgName); isPkg && pn.Imported().Path() == "sync/atomic" {
				for i, a := range c.Args {
					if u, isU := a.(*ast.UnaryExpr); isU && i == 0 && u.Op == token.AND {
						if fs, isSel := u.X.(*ast.SelectorExpr); isSel {
							w.recordAccess(fs, "A", held)
							w.expr(fs.X, held)
							continue
						}
						if gid, isId := u.X.(*ast.Ident); isId {
							w.recordGlobal(gid, "A", held)
							continue
						}
					}
					w.expr(a, held)
				}
				return
			}
		}
	}
	// builtins that mutate their first argument's referent
	if id, ok := c.Fun.(*ast.Ident); ok {
		if _, isB := w.info.Uses[id].(*types.Builtin); isB {
			if id.Name == "delete" && len(c.Args) > 0 {
				if s, isSel := c.Args[0].(*ast.SelectorExpr); isSel {
					w.recordAccess(s, "W", held)
					w.expr(s.X, held)
					for _, a := range c.Args[1:] {
						w.expr(a, held)
					}
					return
				}
			}
			for _, a := range c.Args {
				w.expr(a, held)
			}
			return
		}
	}
	if w.isConversion(c) {
		for _, a := range c.Args {
			if fl, ok := a.(*ast.FuncLit); ok {
				walkLiteral(w, fl, nil, "conv")
				continue
			}
			w.expr(a, held)
		}
		return
	}
	callees, dyn, recvExpr := w.resolveCallees(c)
	for _, cal := range callees {
		if releasers[cal] && !w.inDefer {
			problem("%s: non-deferred call of %s, which releases its caller's lock (line %d)", w.fn.Name, cal, fset.Position(c.Pos()).Line)
		}
	}
	// evaluate function expression and arguments
	switch f := c.Fun.(type) {
	case *ast.SelectorExpr:
		if sel, ok := w.info.Selections[f]; ok && sel.Kind() == types.FieldVal {
			w.recordAccess(f, "R", held)
		}
		// x.f.M(...) where f holds a value of a foreign, not internally synchronised type and M
		// is a mutating method by name: the call writes the object held in f
		if inner, ok := f.X.(*ast.SelectorExpr); ok && mutatingName(f.Sel.Name) {
			if isel, ok := w.info.Selections[inner]; ok && isel.Kind() == types.FieldVal {
				if msel, ok := w.info.Selections[f]; ok && msel.Kind() == types.MethodVal {
					ft := isel.Obj().Type()
					// a value receiver cannot change the object held in the field
					if fn, isFn := msel.Obj().(*types.Func); isFn {
						if sig, isSig := fn.Type().(*types.Signature); isSig && sig.Recv() != nil {
							_, ptrRecv := sig.Recv().Type().(*types.Pointer)
							_, ifaceRecv := sig.Recv().Type().Underlying().(*types.Interface)
							if !ptrRecv && !ifaceRecv {
								ft = nil
							}
						}
					}
					if ft == nil {
					} else if n := namedOf(ft); (n == nil || n.Obj().Pkg() == nil || !tracked[n.Obj().Pkg().Path()]) && !isSyncType(ft) && !foreignSafe(ft) {
						w.recordAccess(inner, "W", held)
					}
				}
			}
		}
		w.expr(f.X, held)
	case *ast.FuncLit:
		walkLiteral(w, f, held, "iife")
	}
	calleeLabel := exprText(c.Fun)
	for _, a := range c.Args {
		if fl, ok := a.(*ast.FuncLit); ok {
			// literals handed to these run before the call returns, on the caller's goroutine,
			// with the caller's locks; anything else may keep the literal and run it later
			last := calleeLabel[strings.LastIndex(calleeLabel, ".")+1:]
			onceDo := false
			if sel, isSel := c.Fun.(*ast.SelectorExpr); isSel && last == "Do" {
				if tv, have := w.info.Types[sel.X]; have && isSyncType(tv.Type, "Once") {
					onceDo = true // sync.Once.Do runs the literal before it returns: stdlib contract
				}
			}
			if onceDo {
				walkLiteral(w, fl, held, "sync")
			} else if last == "Range" || last == "Execute" || last == "Slice" || last == "Do" {
				syncLits[calleeLabel] = true
				walkLiteral(w, fl, held, "sync")
			} else {
				walkLiteral(w, fl, nil, "value")
			}
			continue
		}
		w.expr(a, held)
	}
	if len(callees) == 0 && dyn == "" {
		return
	}
	cs := callSite{Caller: w.fn.Name, Callees: callees, Dynamic: dyn,
		Line: fset.Position(c.Pos()).Line, Held: held.clone(), Rename: map[string]string{}}
	cs.ArgFresh = map[int]argInfo{}
	if recvExpr != nil {
		cs.Rename[exprText(recvExpr)] = "$recv"
		cs.ArgFresh[-1] = w.argInfoOf(recvExpr)
	}
	for i, a := range c.Args {
		cs.Rename[exprText(a)] = fmt.Sprintf("$arg%d", i)
		if _, isIdent := a.(*ast.Ident); isIdent {
			cs.ArgFresh[i] = w.argInfoOf(a)
		}
	}
	w.fn.Calls = append(w.fn.Calls, cs)
}

// expr records the reads performed by evaluating e.
func (w *walker) expr(e ast.Expr, held heldSet) {
	switch v := e.(type) {
	case nil:
	case *ast.SelectorExpr:
		w.recordAccess(v, "R", held)
		w.expr(v.X, held)
	case *ast.CallExpr:
		w.call(v, held)
	case *ast.UnaryExpr:
		if v.Op == token.ARROW && !w.inComm {
			w.fn.Blocks = append(w.fn.Blocks, blockSite{Op: "receives from " + exprText(v.X), Held: held.clone()})
		}
		if v.Op == token.AND {
			if s, ok := v.X.(*ast.SelectorExpr); ok {
				// address taken: conservatively a write unless the field is itself synchronised
				if sel, found := w.info.Selections[s]; found && sel.Kind() == types.FieldVal && !isSyncType(sel.Obj().Type()) {
					w.recordAccess(s, "W", held)
					w.expr(s.X, held)
					return
				}
			}
		}
		w.expr(v.X, held)
	case *ast.BinaryExpr:
		w.expr(v.X, held)
		w.expr(v.Y, held)
	case *ast.ParenExpr:
		w.expr(v.X, held)
	case *ast.StarExpr:
		w.expr(v.X, held)
	case *ast.IndexExpr:
		w.expr(v.X, held)
		w.expr(v.Index, held)
	case *ast.SliceExpr:
		w.expr(v.X, held)
		w.expr(v.Low, held)
		w.expr(v.High, held)
		w.expr(v.Max, held)
	case *ast.TypeAssertExpr:
		w.expr(v.X, held)
	case *ast.KeyValueExpr:
		w.expr(v.Value, held)
	case *ast.CompositeLit:
		for _, el := range v.Elts {
			w.expr(el, held)
		}
	case *ast.FuncLit:
		walkLiteral(w, v, nil, "value")
	case *ast.Ident:
		w.recordGlobal(v, "R", held)
	case *ast.BasicLit, *ast.ArrayType, *ast.MapType, *ast.FuncType, *ast.InterfaceType, *ast.ChanType, *ast.StructType, *ast.Ellipsis:
	default:
		problem("%s: unhandled expression %T at line %d", w.fn.Name, e, fset.Position(e.Pos()).Line)
	}
}

var litCounter = map[string]int{}

// walkLiteral analyses a function literal. mode "sync"/"iife": runs with the caller's locks;
// otherwise it is a separate entry point that starts with no lock held.
func walkLiteral(w *walker, fl *ast.FuncLit, held heldSet, mode string) {
	if mode == "sync" || mode == "iife" {
		sb, sd, sa := w.base, w.deferred, w.deferAll
		w.base, w.deferred, w.deferAll = held.clone(), nil, false
		end, term := w.block(fl.Body.List, held.clone())
		w.base, w.deferred, w.deferAll = sb, sd, sa
		_ = term
		if !sameHeld(end, held) && !term {
			problem("%s: function literal at line %d changes the held lock set", w.fn.Name, fset.Position(fl.Pos()).Line)
		}
		return
	}
	litCounter[w.fn.Name]++
	name := fmt.Sprintf("%s$lit%d", w.fn.Name, litCounter[w.fn.Name])
	fi := &funcInfo{Name: name, Escapes: true}
	funcs[name] = fi
	sub := &walker{info: w.info, pkg: w.pkg, fn: fi, fresh: literalFresh(w, fl), recvNm: w.recvNm, params: w.params, paramIdx: map[types.Object]int{}}
	sub.block(fl.Body.List, nil)
}

// literalFresh: fresh locals of a separately running literal. Variables of the enclosing
// function are not fresh inside it (they are shared with the enclosing goroutine).
func literalFresh(w *walker, fl *ast.FuncLit) map[types.Object]bool {
	params := map[types.Object]int{}
	if fl.Type.Params != nil {
		for _, f := range fl.Type.Params.List {
			for _, n := range f.Names {
				if o := w.info.Defs[n]; o != nil {
					params[o] = 0
				}
			}
		}
	}
	fresh, _ := freshFor(w.info, fl.Body, params)
	// only variables declared inside the literal
	for o := range fresh {
		if o.Pos() < fl.Body.Pos() || o.Pos() > fl.Body.End() {
			delete(fresh, o)
		}
	}
	return fresh
}

func sameHeld(a, b heldSet) bool {
	if len(a) != len(b) {
		return false
	}
	for _, x := range a {
		if !b.has(x) {
			return false
		}
	}
	return true
}

// block walks statements; returns the held set at the end and whether the end is unreachable.
func (w *walker) block(stmts []ast.Stmt, held heldSet) (heldSet, bool) {
	for _, s := range stmts {
		var term bool
		held, term = w.stmt(s, held)
		if term {
			return held, true
		}
	}
	return held, false
}

func (w *walker) stmt(s ast.Stmt, held heldSet) (heldSet, bool) {
	switch v := s.(type) {
	case nil:
	case *ast.ExprStmt:
		if op, x, ok := w.lockCall(v.X); ok {
			class, inst, ok2 := w.lockOf(x)
			if !ok2 {
				problem("%s: cannot resolve lock expression at line %d", w.fn.Name, fset.Position(v.Pos()).Line)
				return held, false
			}
			switch op {
			case "Lock", "RLock":
				mode := "W"
				if op == "RLock" {
					mode = "R"
				}
				l := lockRef{class, inst, mode}
				w.fn.Acquires = append(w.fn.Acquires, acquire{Lock: l, Func: w.fn.Name, Line: fset.Position(v.Pos()).Line, Held: held.clone()})
				held = append(held.clone(), l)
			case "Unlock", "RUnlock":
				mode := "W"
				if op == "RUnlock" {
					mode = "R"
				}
				var ok3 bool
				held, ok3 = held.clone().remove(class, inst, mode)
				if !ok3 {
					// releases a lock taken by the caller (unlockAndNotify): marker, applied to the
					// entry set when rows are produced
					held = append(held, lockRef{class, inst, "-" + mode})
					w.fn.Acquires = append(w.fn.Acquires, acquire{Lock: lockRef{class, inst, "release-of-caller-" + mode}, Func: w.fn.Name, Line: fset.Position(v.Pos()).Line})
				}
			}
			return held, false
		}
		if c, ok := v.X.(*ast.CallExpr); ok {
			if id, isId := c.Fun.(*ast.Ident); isId && id.Name == "panic" {
				for _, a := range c.Args {
					w.expr(a, held)
				}
				return held, true
			}
		}
		w.expr(v.X, held)
	case *ast.AssignStmt:
		for _, r := range v.Rhs {
			w.expr(r, held)
		}
		for _, l := range v.Lhs {
			if v.Tok != token.ASSIGN && v.Tok != token.DEFINE {
				w.expr(l, held) // op-assign reads too
			}
			w.writeTarget(l, held)
		}
	case *ast.IncDecStmt:
		w.expr(v.X, held)
		w.writeTarget(v.X, held)
	case *ast.DeclStmt:
		if gd, ok := v.Decl.(*ast.GenDecl); ok {
			for _, sp := range gd.Specs {
				if vs, isV := sp.(*ast.ValueSpec); isV {
					for _, r := range vs.Values {
						w.expr(r, held)
					}
				}
			}
		}
	case *ast.ReturnStmt:
		for _, r := range v.Results {
			w.expr(r, held)
			// a slice or map held in a field, handed to the caller as it is (or re-sliced) while the lock that guards
			// it is held: the caller goes on reading the shared array after the lock is gone
			e := r
			for {
				if p, ok := e.(*ast.ParenExpr); ok {
					e = p.X
				} else if sl, ok := e.(*ast.SliceExpr); ok {
					e = sl.X
				} else {
					break
				}
			}
			if sel, ok := e.(*ast.SelectorExpr); ok && len(held) > 0 {
				if s, found := w.info.Selections[sel]; found && s.Kind() == types.FieldVal {
					switch s.Obj().Type().Underlying().(type) {
					case *types.Slice, *types.Map:
						var cls []string
						for _, l := range held {
							cls = append(cls, l.Class)
						}
						sort.Strings(cls)
						w.fn.Shared = append(w.fn.Shared, fmt.Sprintf("%s returns %s holding %s", w.fn.Name, exprText(sel), strings.Join(cls, "+")))
					}
				}
			}
		}
		if leaked := w.leakedAt(held); len(leaked) > 0 {
			problem("%s: returns at line %d still holding %s", w.fn.Name, fset.Position(v.Pos()).Line, strings.Join(leaked, "+"))
		}
		return held, true
	case *ast.BranchStmt:
		return held, true
	case *ast.BlockStmt:
		return w.block(v.List, held)
	case *ast.IfStmt:
		if v.Init != nil {
			held, _ = w.stmt(v.Init, held)
		}
		w.expr(v.Cond, held)
		h1, t1 := w.block(v.Body.List, held.clone())
		h2, t2 := held.clone(), false
		if v.Else != nil {
			h2, t2 = w.stmt(v.Else, held.clone())
		}
		switch {
		case t1 && t2:
			return held, true
		case t1:
			return h2, false
		case t2:
			return h1, false
		default:
			return intersect(h1, h2), false
		}
	case *ast.ForStmt:
		if v.Init != nil {
			held, _ = w.stmt(v.Init, held)
		}
		w.expr(v.Cond, held)
		h, term := w.block(v.Body.List, held.clone())
		if v.Post != nil {
			w.stmt(v.Post, held)
		}
		if !term && !sameHeld(h, held) {
			problem("%s: loop at line %d changes the held lock set", w.fn.Name, fset.Position(v.Pos()).Line)
		}
		if v.Cond == nil && !hasBreak(v.Body) {
			return held, true
		}
	case *ast.RangeStmt:
		w.expr(v.X, held)
		h, term := w.block(v.Body.List, held.clone())
		if !term && !sameHeld(h, held) {
			problem("%s: loop at line %d changes the held lock set", w.fn.Name, fset.Position(v.Pos()).Line)
		}
	case *ast.SwitchStmt:
		if v.Init != nil {
			held, _ = w.stmt(v.Init, held)
		}
		w.expr(v.Tag, held)
		return w.clauses(v.Body.List, held, false)
	case *ast.TypeSwitchStmt:
		if v.Init != nil {
			held, _ = w.stmt(v.Init, held)
		}
		switch a := v.Assign.(type) {
		case *ast.ExprStmt:
			w.expr(a.X, held)
		case *ast.AssignStmt:
			for _, r := range a.Rhs {
				w.expr(r, held)
			}
		}
		return w.clauses(v.Body.List, held, false)
	case *ast.SelectStmt:
		return w.clauses(v.Body.List, held, true)
	case *ast.GoStmt:
		w.goSeen = true
		if fl, ok := v.Call.Fun.(*ast.FuncLit); ok {
			for _, a := range v.Call.Args {
				w.expr(a, held)
			}
			walkLiteral(w, fl, nil, "go")
		} else {
			callees, _, _ := w.resolveCallees(v.Call)
			for _, c := range callees {
				escapes[c] = true
			}
			if s, ok := v.Call.Fun.(*ast.SelectorExpr); ok {
				w.expr(s.X, held)
			}
			for _, a := range v.Call.Args {
				w.expr(a, held)
			}
		}
	case *ast.DeferStmt:
		if op, x, ok := w.lockCall(v.Call); ok {
			if class, inst, ok2 := w.lockOf(x); ok2 {
				if w.deferred == nil {
					w.deferred = map[string]bool{}
				}
				mode := "W"
				if op == "RUnlock" {
					mode = "R"
				}
				w.deferred[class+"|"+inst+"|"+mode] = true
			}
			return held, false // released at function exit: held for the rest of the body
		}
		if callees, _, _ := w.resolveCallees(v.Call); len(callees) > 0 {
			for _, c := range callees {
				if releasers[c] {
					w.deferAll = true
				}
			}
		}
		if fl, ok := v.Call.Fun.(*ast.FuncLit); ok {
			// runs at exit; analysed with the locks held *now* minus nothing (deferred unlocks run later
			// in LIFO order, so a deferred literal registered after `defer mu.Unlock()` runs with mu held)
			walkLiteral(w, fl, held, "iife")
			return held, false
		}
		w.inDefer = true
		w.call(v.Call, held)
		w.inDefer = false
	case *ast.SendStmt:
		if !w.inComm {
			w.fn.Blocks = append(w.fn.Blocks, blockSite{Op: "sends on " + exprText(v.Chan), Held: held.clone()})
		}
		w.expr(v.Chan, held)
		w.expr(v.Value, held)
	case *ast.LabeledStmt:
		return w.stmt(v.Stmt, held)
	case *ast.EmptyStmt:
	default:
		problem("%s: unhandled statement %T at line %d", w.fn.Name, s, fset.Position(s.Pos()).Line)
	}
	return held, false
}

var escapes = map[string]bool{}

func hasBreak(b *ast.BlockStmt) bool {
	found := false
	ast.Inspect(b, func(n ast.Node) bool {
		switch v := n.(type) {
		case *ast.BranchStmt:
			if v.Tok == token.BREAK || v.Tok == token.GOTO {
				found = true
			}
		case *ast.ReturnStmt:
			found = true
		case *ast.FuncLit:
			return false
		}
		return true
	})
	return found
}

func (w *walker) clauses(list []ast.Stmt, held heldSet, isSelect bool) (heldSet, bool) {
	var ends []heldSet
	hasDefault := false
	for _, cl := range list {
		var body []ast.Stmt
		h := held.clone()
		switch c := cl.(type) {
		case *ast.CaseClause:
			if c.List == nil {
				hasDefault = true
			}
			for _, e := range c.List {
				w.expr(e, held)
			}
			body = c.Body
		case *ast.CommClause:
			if c.Comm == nil {
				hasDefault = true
			} else {
				w.inComm = true
				h, _ = w.stmt(c.Comm, h)
				w.inComm = false
			}
			body = c.Body
		}
		e, term := w.block(body, h)
		// a `break` inside a case only leaves the switch: treat BranchStmt-terminated clause as reaching the end
		if term && endsWithBreak(body) {
			term = false
		}
		if !term {
			ends = append(ends, e)
		}
	}
	if !hasDefault && !isSelect {
		ends = append(ends, held.clone())
	}
	if len(ends) == 0 {
		return held, true
	}
	out := ends[0]
	for _, e := range ends[1:] {
		out = intersect(out, e)
	}
	return out, false
}

func endsWithBreak(body []ast.Stmt) bool {
	if len(body) == 0 {
		return false
	}
	b, ok := body[len(body)-1].(*ast.BranchStmt)
	return ok && b.Tok == token.BREAK && b.Label == nil
}

// ---------------------------------------------------------------------------------------------

type loaded struct {
	pkg   *types.Package
	info  *types.Info
	files []*ast.File
}

func load(root, dir string, imp types.Importer) *loaded {
	full := filepath.Join(root, dir)
	ents, err := os.ReadDir(full)
	if err != nil {
		problem("cannot read %s", dir)
		return nil
	}
	var files []*ast.File
	for _, e := range ents {
		n := e.Name()
		if e.IsDir() || !strings.HasSuffix(n, ".go") || strings.HasSuffix(n, "_test.go") {
			continue
		}
		f, err := parser.ParseFile(fset, filepath.Join(full, n), nil, 0)
		if err != nil {
			problem("parse %s/%s: %v", dir, n, err)
			continue
		}
		files = append(files, f)
	}
	info := &types.Info{
		Selections: map[*ast.SelectorExpr]*types.Selection{},
		Uses:       map[*ast.Ident]types.Object{},
		Defs:       map[*ast.Ident]types.Object{},
		Types:      map[ast.Expr]types.TypeAndValue{},
	}
	conf := types.Config{Importer: imp, Error: func(err error) { problem("typecheck %s: %v", dir, err) }}
	pkg, _ := conf.Check(modPath+dir, fset, files, info)
	if pkg == nil {
		return nil
	}
	return &loaded{pkg, info, files}
}

func leanStr(s string) string {
	return "\"" + strings.ReplaceAll(strings.ReplaceAll(s, "\\", "\\\\"), "\"", "\\\"") + "\""
}

func leanHeld(h heldSet) string {
	var parts []string
	for _, l := range h {
		parts = append(parts, fmt.Sprintf("⟨%s, %s, %s⟩", leanStr(l.Class), leanStr(l.Inst), leanStr(l.Mode)))
	}
	return "[" + strings.Join(parts, ", ") + "]"
}

func main() {
	root := "/repo"
	if len(os.Args) > 1 {
		root = os.Args[1]
	}
	if err := os.Chdir(root); err != nil {
		fmt.Fprintln(os.Stderr, err)
		os.Exit(2)
	}
	imp := importer.ForCompiler(fset, "source", nil)
	var pkgs []*loaded
	for _, d := range pkgDirs {
		tracked[modPath+d] = true
	}
	for _, d := range pkgDirs {
		if l := load(root, d, imp); l != nil {
			pkgs = append(pkgs, l)
		}
	}
	// method index for interface dispatch (only methods of tracked packages)
	for _, l := range pkgs {
		for _, f := range l.files {
			for _, d := range f.Decls {
				fd, ok := d.(*ast.FuncDecl)
				if !ok || fd.Recv == nil {
					continue
				}
				if obj, ok := l.info.Defs[fd.Name].(*types.Func); ok {
					full := funcFullName(obj)
					methodsByName[fd.Name.Name] = append(methodsByName[fd.Name.Name], full)
					typ := full[:strings.LastIndex(full, ".")]
					if typeMethods[typ] == nil {
						typeMethods[typ] = map[string]bool{}
					}
					typeMethods[typ][fd.Name.Name] = true
				}
			}
		}
	}
	computeAllFresh(pkgs)
	// functions that unlock a mutex they never lock themselves release their caller's lock
	for _, l := range pkgs {
		for _, f := range l.files {
			for _, d := range f.Decls {
				fd, ok := d.(*ast.FuncDecl)
				if !ok || fd.Body == nil {
					continue
				}
				obj, _ := l.info.Defs[fd.Name].(*types.Func)
				if obj == nil {
					continue
				}
				locked, unlocked := map[string]bool{}, map[string]bool{}
				ast.Inspect(fd.Body, func(n ast.Node) bool {
					if c, ok := n.(*ast.CallExpr); ok {
						if s, ok := c.Fun.(*ast.SelectorExpr); ok {
							switch s.Sel.Name {
							case "Lock", "RLock":
								locked[exprText(s.X)] = true
							case "Unlock", "RUnlock":
								unlocked[exprText(s.X)] = true
							}
						}
					}
					return true
				})
				for x := range unlocked {
					if !locked[x] {
						releasers[funcFullName(obj)] = true
					}
				}
			}
		}
	}
	for _, l := range pkgs {
		for _, f := range l.files {
			for _, d := range f.Decls {
				fd, ok := d.(*ast.FuncDecl)
				if !ok || fd.Body == nil {
					continue
				}
				obj, _ := l.info.Defs[fd.Name].(*types.Func)
				if obj == nil {
					continue
				}
				name := funcFullName(obj)
				if fd.Recv == nil && fd.Name.Name == "init" {
					// a package may have many init functions: one name per file
					name += "#" + filepath.Base(fset.Position(fd.Pos()).Filename)
				}
				fi := &funcInfo{Name: name, Exported: ast.IsExported(fd.Name.Name)}
				funcs[name] = fi
				w := &walker{info: l.info, pkg: l.pkg, fn: fi, fresh: freshSets[name], params: map[string]bool{}, paramIdx: paramObjects(l.info, fd)}
				if w.fresh == nil {
					w.fresh = map[types.Object]bool{}
				}
				if fd.Recv != nil && len(fd.Recv.List) > 0 && len(fd.Recv.List[0].Names) > 0 {
					w.recvNm = fd.Recv.List[0].Names[0].Name
				}
				end, term := w.block(fd.Body.List, nil)
				var endPos heldSet
				for _, l := range end {
					if !isNeg(l) {
						endPos = append(endPos, l)
					}
				}
				end = endPos
				if !term && len(end) > 0 {
					// locks still held at the end without a defer: only fine if released by deferred calls
					hasDefer := false
					ast.Inspect(fd.Body, func(n ast.Node) bool {
						if _, ok := n.(*ast.DeferStmt); ok {
							hasDefer = true
						}
						return true
					})
					if !hasDefer {
						problem("%s: returns holding %v", name, end)
					}
				}
				// parameter names for renaming
				fi.Calls = append(fi.Calls[:0:0], fi.Calls...)
				paramNames[name] = paramList(fd)
				recvNames[name] = w.recvNm
			}
		}
	}
	// functions referenced as values escape (entry points)
	for _, l := range pkgs {
		for id, obj := range l.info.Uses {
			fn, ok := obj.(*types.Func)
			if !ok {
				continue
			}
			_ = id
			_ = fn
		}
		for _, f := range l.files {
			ast.Inspect(f, func(n ast.Node) bool {
				c, ok := n.(*ast.CallExpr)
				if ok {
					for _, a := range c.Args {
						markValueRef(l.info, a)
					}
				}
				if as, ok := n.(*ast.AssignStmt); ok {
					for _, r := range as.Rhs {
						markValueRef(l.info, r)
					}
				}
				if kv, ok := n.(*ast.KeyValueExpr); ok {
					markValueRef(l.info, kv.Value)
				}
				return true
			})
		}
	}
	analyse()
}

var freshSets = map[string]map[types.Object]bool{}
var retFresh = map[string][]bool{}

func paramObjects(info *types.Info, fd *ast.FuncDecl) map[types.Object]int {
	out := map[types.Object]int{}
	if fd.Recv != nil {
		for _, f := range fd.Recv.List {
			for _, n := range f.Names {
				if o := info.Defs[n]; o != nil {
					out[o] = -1
				}
			}
		}
	}
	i := 0
	if fd.Type.Params != nil {
		for _, f := range fd.Type.Params.List {
			if len(f.Names) == 0 {
				i++
			}
			for _, n := range f.Names {
				if o := info.Defs[n]; o != nil {
					out[o] = i
				}
				i++
			}
		}
	}
	return out
}

// localValueVars: local variables of struct (non-pointer) type are private copies.
func localValueVars(info *types.Info, body ast.Node) map[types.Object]bool {
	out := map[types.Object]bool{}
	ast.Inspect(body, func(n ast.Node) bool {
		if id, ok := n.(*ast.Ident); ok {
			if o, ok := info.Defs[id].(*types.Var); ok && o != nil && !o.IsField() {
				if _, isStruct := o.Type().Underlying().(*types.Struct); isStruct {
					out[o] = true
				}
			}
		}
		return true
	})
	return out
}

type assignSite struct {
	obj types.Object
	rhs ast.Expr // nil: not fresh (range element, multi-value from non-call, ...)
	idx int      // result index when rhs is a call with several results
}

// freshRHS: does evaluating e (result idx) certainly yield an object nobody else references?
func freshRHS(info *types.Info, e ast.Expr, idx int, fresh map[types.Object]bool) bool {
	switch v := e.(type) {
	case nil:
		return false
	case *ast.ParenExpr:
		return freshRHS(info, v.X, idx, fresh)
	case *ast.UnaryExpr:
		if v.Op == token.AND {
			_, isLit := v.X.(*ast.CompositeLit)
			return isLit
		}
	case *ast.CompositeLit:
		return true
	case *ast.Ident:
		if v.Name == "nil" {
			return true
		}
		if o := info.Uses[v]; o != nil {
			return fresh[o]
		}
	case *ast.TypeAssertExpr: // pool.Get().(*T)
		if c, ok := v.X.(*ast.CallExpr); ok {
			if s, ok := c.Fun.(*ast.SelectorExpr); ok && s.Sel.Name == "Get" {
				if tv, ok := info.Types[s.X]; ok && isSyncType(tv.Type, "Pool") {
					return true
				}
			}
		}
	case *ast.CallExpr:
		if id, ok := v.Fun.(*ast.Ident); ok {
			if _, isB := info.Uses[id].(*types.Builtin); isB {
				return id.Name == "new" || id.Name == "make"
			}
			if fn, ok := info.Uses[id].(*types.Func); ok {
				r := retFresh[funcFullName(fn)]
				return idx < len(r) && r[idx]
			}
		}
		if s, ok := v.Fun.(*ast.SelectorExpr); ok {
			var fn *types.Func
			if sel, ok := info.Selections[s]; ok && sel.Kind() == types.MethodVal {
				if _, isIface := sel.Recv().Underlying().(*types.Interface); !isIface {
					fn, _ = sel.Obj().(*types.Func)
				}
			} else if f2, ok := info.Uses[s.Sel].(*types.Func); ok {
				fn = f2
			}
			if fn != nil {
				r := retFresh[funcFullName(fn)]
				return idx < len(r) && r[idx]
			}
		}
	}
	return false
}

func collectAssigns(info *types.Info, body *ast.BlockStmt) ([]assignSite, [][]ast.Expr) {
	var sites []assignSite
	var rets [][]ast.Expr
	objOf := func(e ast.Expr) types.Object {
		id, ok := e.(*ast.Ident)
		if !ok || id.Name == "_" {
			return nil
		}
		if o := info.Defs[id]; o != nil {
			return o
		}
		return info.Uses[id]
	}
	var visit func(n ast.Node) bool
	visit = func(n ast.Node) bool {
		switch v := n.(type) {
		case *ast.FuncLit:
			// returns inside a literal are not returns of the enclosing function
			ast.Inspect(v.Body, func(m ast.Node) bool {
				if _, isRet := m.(*ast.ReturnStmt); isRet {
					return false
				}
				if m != v.Body {
					if _, isLit := m.(*ast.FuncLit); isLit {
						return false
					}
				}
				return true
			})
			sub, _ := collectAssigns(info, v.Body)
			sites = append(sites, sub...)
			return false
		case *ast.AssignStmt:
			if len(v.Lhs) == len(v.Rhs) {
				for i, l := range v.Lhs {
					if o := objOf(l); o != nil {
						sites = append(sites, assignSite{o, v.Rhs[i], 0})
					}
				}
			} else if len(v.Rhs) == 1 {
				for i, l := range v.Lhs {
					if o := objOf(l); o != nil {
						if _, isCall := v.Rhs[0].(*ast.CallExpr); isCall {
							sites = append(sites, assignSite{o, v.Rhs[0], i})
						} else if i == 0 {
							// v, ok := m[k] / x.(T) / <-ch
							if _, isTA := v.Rhs[0].(*ast.TypeAssertExpr); isTA {
								sites = append(sites, assignSite{o, v.Rhs[0], 0})
							} else {
								sites = append(sites, assignSite{o, nil, 0})
							}
						}
					}
				}
			}
		case *ast.RangeStmt:
			for _, l := range []ast.Expr{v.Key, v.Value} {
				if l != nil {
					if o := objOf(l); o != nil {
						sites = append(sites, assignSite{o, nil, 0})
					}
				}
			}
		case *ast.ValueSpec:
			for i, nm := range v.Names {
				if o := info.Defs[nm]; o != nil {
					if i < len(v.Values) {
						sites = append(sites, assignSite{o, v.Values[i], 0})
					} else if len(v.Values) == 0 {
						if _, isPtr := o.Type().Underlying().(*types.Pointer); !isPtr {
							continue // zero value of a non-pointer
						}
						// var p *T : nil
					} else {
						sites = append(sites, assignSite{o, nil, 0})
					}
				}
			}
		case *ast.ReturnStmt:
			rets = append(rets, v.Results)
		}
		return true
	}
	ast.Inspect(body, visit)
	return sites, rets
}

// freshFor: the local variables of a body that certainly hold unshared objects.
func freshFor(info *types.Info, body *ast.BlockStmt, params map[types.Object]int) (map[types.Object]bool, [][]ast.Expr) {
	sites, rets := collectAssigns(info, body)
	fresh := localValueVars(info, body)
	for _, s := range sites {
		if _, isPtr := s.obj.Type().Underlying().(*types.Pointer); isPtr {
			fresh[s.obj] = true
		}
	}
	for o := range params {
		delete(fresh, o)
	}
	for again := true; again; {
		again = false
		for _, s := range sites {
			if _, isPtr := s.obj.Type().Underlying().(*types.Pointer); !isPtr {
				continue
			}
			if fresh[s.obj] && !freshRHS(info, s.rhs, s.idx, fresh) {
				delete(fresh, s.obj)
				again = true
			}
		}
	}
	return fresh, rets
}

// computeAllFresh: greatest fixpoint of "every assignment to the variable stores a fresh
// object" per function and "every return yields a fresh object" across functions.
func computeAllFresh(pkgs []*loaded) {
	type decl struct {
		name string
		fd   *ast.FuncDecl
		info *types.Info
	}
	var decls []decl
	for _, l := range pkgs {
		for _, f := range l.files {
			for _, d := range f.Decls {
				fd, ok := d.(*ast.FuncDecl)
				if !ok || fd.Body == nil {
					continue
				}
				obj, _ := l.info.Defs[fd.Name].(*types.Func)
				if obj == nil {
					continue
				}
				name := funcFullName(obj)
				decls = append(decls, decl{name, fd, l.info})
				n := 0
				if fd.Type.Results != nil {
					for _, r := range fd.Type.Results.List {
						if len(r.Names) == 0 {
							n++
						}
						n += len(r.Names)
					}
				}
				rf := make([]bool, n)
				for i := range rf {
					rf[i] = true
				}
				retFresh[name] = rf
			}
		}
	}
	for changed := true; changed; {
		changed = false
		for _, d := range decls {
			fresh, rets := freshFor(d.info, d.fd.Body, paramObjects(d.info, d.fd))
			freshSets[d.name] = fresh
			rf := retFresh[d.name]
			for _, res := range rets {
				for i := range rf {
					ok := false
					if len(res) == len(rf) {
						ok = freshRHS(d.info, res[i], 0, fresh)
					} else if len(res) == 1 {
						ok = freshRHS(d.info, res[0], i, fresh)
					} else if len(res) == 0 {
						ok = false // named results: not tracked
					}
					if rf[i] && !ok {
						rf[i] = false
						changed = true
					}
				}
			}
		}
	}
}

var paramNames = map[string][]string{}
var recvNames = map[string]string{}

func paramList(fd *ast.FuncDecl) []string {
	var out []string
	if fd.Type.Params != nil {
		for _, f := range fd.Type.Params.List {
			if len(f.Names) == 0 {
				out = append(out, "_")
			}
			for _, n := range f.Names {
				out = append(out, n.Name)
			}
		}
	}
	return out
}

func markValueRef(info *types.Info, e ast.Expr) {
	switch v := e.(type) {
	case *ast.Ident:
		if fn, ok := info.Uses[v].(*types.Func); ok {
			escapes[funcFullName(fn)] = true
		}
	case *ast.SelectorExpr:
		if sel, ok := info.Selections[v]; ok && sel.Kind() == types.MethodVal {
			escapes[funcFullName(sel.Obj().(*types.Func))] = true
		} else if fn, ok := info.Uses[v.Sel].(*types.Func); ok {
			escapes[funcFullName(fn)] = true
		}
	}
}

// rename maps a lock held by the caller into the callee's naming.
func rename(l lockRef, cs callSite, callee string) lockRef {
	if l.Inst == "" {
		return l
	}
	if to, ok := cs.Rename[l.Inst]; ok {
		if to == "$recv" {
			if rn := recvNames[callee]; rn != "" {
				return lockRef{l.Class, rn, l.Mode}
			}
		} else if strings.HasPrefix(to, "$arg") {
			var i int
			fmt.Sscanf(to, "$arg%d", &i)
			if ps := paramNames[callee]; i < len(ps) {
				return lockRef{l.Class, ps[i], l.Mode}
			}
		}
	}
	// a lock reached through the receiver: cb.x.mutex with receiver cb stays addressable
	return lockRef{l.Class, "caller:" + l.Inst, l.Mode}
}

func analyse() {
	names := make([]string, 0, len(funcs))
	for n := range funcs {
		names = append(names, n)
	}
	sort.Strings(names)
	// call sites per callee
	sites := map[string][]callSite{}
	for _, n := range names {
		for _, cs := range funcs[n].Calls {
			for _, c := range cs.Callees {
				if _, ok := funcs[c]; ok {
					sites[c] = append(sites[c], cs)
				}
			}
		}
	}
	isEntry := func(n string) bool {
		f := funcs[n]
		return f.Exported || f.Escapes || escapes[n] || len(sites[n]) == 0 || strings.HasSuffix(n, ".main") || strings.Contains(n, ".init#")
	}
	// must-hold at entry: greatest fixpoint of the intersection over call sites
	top := heldSet{{"⊤", "", ""}}
	must := map[string]heldSet{}
	may := map[string]heldSet{}
	for _, n := range names {
		if isEntry(n) {
			must[n] = nil
		} else {
			must[n] = top
		}
	}
	for changed := true; changed; {
		changed = false
		for _, n := range names {
			if isEntry(n) {
				continue
			}
			var acc heldSet
			first := true
			for _, cs := range sites[n] {
				callerMust := must[cs.Caller]
				if len(callerMust) == 1 && callerMust[0].Class == "⊤" {
					continue // not yet known: optimistic
				}
				var here heldSet
				for _, l := range effective(callerMust, cs.Held, false) {
					here = append(here, rename(l, cs, n))
				}
				if first {
					acc, first = here, false
				} else {
					acc = intersect(acc, here)
				}
			}
			if first {
				continue
			}
			if !sameHeld(acc, must[n]) {
				must[n] = acc
				changed = true
			}
		}
	}
	for _, n := range names {
		if len(must[n]) == 1 && must[n][0].Class == "⊤" {
			must[n] = nil // only reachable from itself
		}
	}
	// may-hold at entry: least fixpoint of the union over call sites (classes and modes only)
	for changed := true; changed; {
		changed = false
		for _, n := range names {
			for _, cs := range sites[n] {
				for _, l := range effective(may[cs.Caller], cs.Held, true) {
					r := lockRef{l.Class, "", l.Mode}
					if !may[n].has(r) {
						may[n] = append(may[n], r)
						changed = true
					}
				}
			}
		}
	}

	// parameter freshness: greatest fixpoint over call sites (entry points: nothing is fresh)
	pfresh := map[string]map[int]bool{}
	for _, n := range names {
		pfresh[n] = map[int]bool{}
		if !isEntry(n) {
			for i := -1; i < len(paramNames[n]); i++ {
				pfresh[n][i] = true
			}
		}
	}
	for changed := true; changed; {
		changed = false
		for _, n := range names {
			for i := range pfresh[n] {
				if !pfresh[n][i] {
					continue
				}
				ok := true
				for _, cs := range sites[n] {
					ai, have := cs.ArgFresh[i]
					if !have || !(ai.Fresh || (ai.Param != -2 && pfresh[cs.Caller][ai.Param])) {
						ok = false
					}
				}
				if !ok {
					pfresh[n][i] = false
					changed = true
				}
			}
		}
	}
	for _, n := range names {
		for k := range funcs[n].Accesses {
			a := &funcs[n].Accesses[k]
			if !a.Fresh && a.BaseParam != -2 && pfresh[n][a.BaseParam] {
				a.Fresh = true
			}
		}
	}

	var b strings.Builder
	b.WriteString("-- GENERATED by /verif/go/locks from the current /repo source. Do not edit.\n")
	b.WriteString("import Helios.Model.Locks\nnamespace Helios.Generated.Locks\nopen Helios.Locks\n\n")

	// accesses
	var rows []string
	nAcc := 0
	for _, n := range names {
		for _, a := range funcs[n].Accesses {
			held := effective(must[n], a.Held, false)
			var hs []string
			for _, l := range held {
				same := l.Inst == a.Recv
				hs = append(hs, fmt.Sprintf("⟨%s, %s, %v⟩", leanStr(l.Class), leanStr(l.Mode), same))
			}
			rows = append(rows, fmt.Sprintf("  ⟨%s, %s, %s, %v, %s, %d, [%s]⟩", leanStr(a.Struct), leanStr(a.Field), leanStr(a.Kind), a.Fresh, leanStr(a.Func), a.Line, strings.Join(hs, ", ")))
			nAcc++
		}
	}
	// split into chunks so that `decide` stays within its limits
	const chunk = 40
	var chunkNames []string
	for i := 0; i < len(rows); i += chunk {
		j := i + chunk
		if j > len(rows) {
			j = len(rows)
		}
		nm := fmt.Sprintf("accesses%d", i/chunk)
		chunkNames = append(chunkNames, nm)
		fmt.Fprintf(&b, "def %s : List Access := [\n%s]\n\n", nm, strings.Join(rows[i:j], ",\n"))
	}
	fmt.Fprintf(&b, "def accessChunks : List (List Access) := [%s]\n\n", strings.Join(chunkNames, ", "))

	// lock-order edges
	type edge struct{ from, to string }
	edges := map[edge]string{}
	var releases []string
	for _, n := range names {
		for _, aq := range funcs[n].Acquires {
			if strings.HasPrefix(aq.Lock.Mode, "release-of-caller") {
				releases = append(releases, fmt.Sprintf("%s:%s", n, aq.Lock.Class))
				continue
			}
			for _, h := range effective(may[n], aq.Held, true) {
				e := edge{h.Class, aq.Lock.Class}
				if _, ok := edges[e]; !ok {
					edges[e] = fmt.Sprintf("%s:%d", n, aq.Line)
				}
			}
		}
	}
	var es []edge
	for e := range edges {
		es = append(es, e)
	}
	sort.Slice(es, func(i, j int) bool { return es[i].from+"|"+es[i].to < es[j].from+"|"+es[j].to })
	b.WriteString("def orderEdges : List (String × String × String) := [\n")
	for i, e := range es {
		sep := ","
		if i == len(es)-1 {
			sep = ""
		}
		fmt.Fprintf(&b, "  (%s, %s, %s)%s\n", leanStr(e.from), leanStr(e.to), leanStr(edges[e]), sep)
	}
	b.WriteString("]\n\n")

	// lock classes
	classes := map[string]bool{}
	for _, n := range names {
		for _, aq := range funcs[n].Acquires {
			if !strings.HasPrefix(aq.Lock.Mode, "release-of-caller") {
				classes[aq.Lock.Class] = true
			}
		}
	}
	var cl []string
	for c := range classes {
		cl = append(cl, leanStr(c))
	}
	sort.Strings(cl)
	fmt.Fprintf(&b, "def lockClasses : List String := [%s]\n\n", strings.Join(cl, ", "))

	// calls through function values while a lock may be held
	var dyn []string
	for _, n := range names {
		for _, cs := range funcs[n].Calls {
			if cs.Dynamic == "" {
				continue
			}
			h := effective(union(may[n], must[n]), cs.Held, true)
			if len(h) == 0 {
				continue
			}
			var cls []string
			for _, l := range h {
				cls = append(cls, l.Class)
			}
			sort.Strings(cls)
			dyn = append(dyn, leanStr(fmt.Sprintf("%s calls %s holding %s", n, cs.Dynamic, strings.Join(cls, "+"))))
		}
	}
	sort.Strings(dyn)
	fmt.Fprintf(&b, "def dynamicCallsUnderLock : List String := [%s]\n\n", strings.Join(dyn, ", "))

	// waits for another goroutine while a lock may be held
	var blk []string
	for _, n := range names {
		for _, bs := range funcs[n].Blocks {
			h := effective(union(may[n], must[n]), bs.Held, true)
			if len(h) == 0 {
				continue
			}
			var cls []string
			for _, l := range h {
				cls = append(cls, l.Class)
			}
			sort.Strings(cls)
			blk = append(blk, leanStr(fmt.Sprintf("%s %s holding %s", n, bs.Op, strings.Join(cls, "+"))))
		}
	}
	sort.Strings(blk)
	fmt.Fprintf(&b, "def blockingUnderLock : List String := [%s]\n\n", strings.Join(blk, ", "))

	var shr []string
	for _, n := range names {
		for _, x := range funcs[n].Shared {
			shr = append(shr, leanStr(x))
		}
	}
	sort.Strings(shr)
	fmt.Fprintf(&b, "def sharedGuardedReturns : List String := [%s]\n\n", strings.Join(shr, ", "))

	// functions that write a package-level variable, with their static callers: a variable that
	// is only written during package initialisation needs no lock
	var gw []string
	for _, n := range names {
		writes := false
		for _, a := range funcs[n].Accesses {
			if a.Struct == "var" && a.Kind == "W" {
				writes = true
			}
		}
		if !writes {
			continue
		}
		seen := map[string]bool{}
		var callers []string
		for _, cs := range sites[n] {
			if !seen[cs.Caller] {
				seen[cs.Caller] = true
				callers = append(callers, leanStr(cs.Caller))
			}
		}
		sort.Strings(callers)
		gw = append(gw, fmt.Sprintf("  (%s, [%s], %v)", leanStr(n), strings.Join(callers, ", "), funcs[n].Escapes || escapes[n]))
	}
	fmt.Fprintf(&b, "def globalWriterCallers : List (String × List String × Bool) := [\n%s]\n\n", strings.Join(gw, ",\n"))

	var inits []string
	for _, n := range names {
		if strings.Contains(n, ".init#") {
			inits = append(inits, leanStr(n))
		}
	}
	fmt.Fprintf(&b, "def initFuncs : List String := [%s]\n\n", strings.Join(inits, ", "))

	sort.Strings(releases)
	for i := range releases {
		releases[i] = leanStr(releases[i])
	}
	fmt.Fprintf(&b, "def callerLockReleases : List String := [%s]\n\n", strings.Join(releases, ", "))

	var sl []string
	for k := range syncLits {
		sl = append(sl, leanStr(k))
	}
	sort.Strings(sl)
	fmt.Fprintf(&b, "def syncLiteralCallees : List String := [%s]\n\n", strings.Join(sl, ", "))

	sort.Strings(problems)
	var ps []string
	for _, p := range problems {
		ps = append(ps, leanStr(p))
	}
	fmt.Fprintf(&b, "def problems : List String := [%s]\n\n", strings.Join(ps, ",\n  "))
	fmt.Fprintf(&b, "def accessCount : Nat := %d\n\nend Helios.Generated.Locks\n", nAcc)
	fmt.Print(b.String())
}
