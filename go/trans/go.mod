module verif/trans

go 1.20
