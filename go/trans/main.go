// Command trans translates a fixed list of Go functions of Helios, as they are in the source
// tree now, into Lean 4 definitions (Helios/Generated/Code.lean). The theorems of
// Helios/Props/Code.lean prove that these definitions — what the code says — coincide with the
// hand-written models the property theorems are about, for every state and input.
//
// Supported fragment (anything else is reported in `translationProblems` and the function is not
// emitted, which breaks the equivalence theorems): assignments to locals and to fields of the
// receiver / pointer parameters, ++ / -- / op=, if / else with init, tag switch without
// fallthrough, return, for-with-condition (translated to a fuel-indexed recursion), calls of other
// translated methods, time.Time / time.Duration arithmetic, integer arithmetic and comparisons,
// conversions, append of a composite literal, nil tests of function-valued fields.
//
// Semantics chosen by the translator (part of the trusted base, stated in DESIGN.md):
//   - abstract mode: signed integers, time.Time (nanoseconds) and time.Duration are `Int`,
//     unsigned integers are `Nat`; no wrap-around. Exact mode (jumpHash): Go's fixed-width types
//     are Lean's UInt64 / Int64 / Int32 with their wrap-around arithmetic.
//   - every time.Now() inside one call of a translated function reads the same instant `now`.
//   - mutex operations, deferred unlocks and the deferred notifier are skipped: a translated
//     function is one atomic step (the locking discipline itself is C12's subject).
//   - control flow is translated by duplicating the continuation into both branches of an `if`.
package main

import (
	"fmt"
	"go/ast"
	"go/constant"
	"go/importer"
	"go/parser"
	"go/token"
	"go/types"
	"os"
	"path/filepath"
	"sort"
	"strings"
)

const modPath = "github.com/0xReLogic/Helios/"

// an error value: the format string (or the name of the sentinel variable) and the string
// arguments it was built with
const errType = "(Option (String × List String))"

type spec struct {
	Pkg, Recv, Name string
	Exact           bool
	Extern          map[string]bool // methods whose result is an object handed in by the caller
	LeanName        string
	View            map[string]bool // pointer parameters of foreign types: the fields read become value parameters
	Join            bool            // an `if` whose body only assigns is a conditional re-binding (no duplicated continuation)
	ByteStr         bool            // Go strings are byte strings (`Bytes`), so that the standard-library string functions have models
}

// set while a function with spec.ByteStr is translated
var byteStr bool

// pointer fields that are followed (the pointed-to record becomes a nested structure); every other
// pointer to a struct is represented by whether it is non-nil
var nestedFields = map[string]bool{"healthChecks": true}

// records whose pointer slices are read as lists of records
var slicesOfRecords = map[string]bool{"Backend": true, "weightedBackend": true}

// calls that only report: `x.metricsCollector.UpdateBackendHealth(name, healthy)` is kept as an entry
// appended to the field `fx` of the structure of `x` (the order of reports is part of the behaviour)
var effectCalls = map[string]bool{"UpdateBackendHealth": true}

var specs = []spec{
	{Pkg: "internal/circuitbreaker", Recv: "CircuitBreaker", Name: "setState"},
	{Pkg: "internal/circuitbreaker", Recv: "CircuitBreaker", Name: "beforeRequest"},
	{Pkg: "internal/circuitbreaker", Recv: "CircuitBreaker", Name: "afterRequest"},
	{Pkg: "internal/ratelimiter", Recv: "TokenBucketRateLimiter", Name: "refillTokens"},
	{Pkg: "internal/ratelimiter", Recv: "TokenBucketRateLimiter", Name: "Allow", Extern: map[string]bool{"getOrCreateBucket": true}},
	{Pkg: "internal/loadbalancer", Recv: "", Name: "jumpHash", Exact: true},
	{Pkg: "internal/utils", Recv: "", Name: "GetClientIP", View: map[string]bool{"r": true}, ByteStr: true},
	{Pkg: "internal/adminapi", Recv: "IPFilter", Name: "IsAllowed", ByteStr: true},
	{Pkg: "internal/logging", Recv: "", Name: "validHeaderFieldName", ByteStr: true},
	{Pkg: "internal/loadbalancer", Recv: "Backend", Name: "eligible"},
	{Pkg: "internal/loadbalancer", Recv: "Backend", Name: "GetActiveConnections"},
	{Pkg: "internal/loadbalancer", Recv: "LeastConnectionsStrategy", Name: "NextBackend", LeanName: "lcNextBackend"},
	{Pkg: "internal/loadbalancer", Recv: "RoundRobinStrategy", Name: "NextBackend", LeanName: "rrNextBackend"},
	{Pkg: "internal/loadbalancer", Recv: "RoundRobinStrategy", Name: "AddBackend", LeanName: "rrAddBackend"},
	{Pkg: "internal/loadbalancer", Recv: "LeastConnectionsStrategy", Name: "AddBackend", LeanName: "lcAddBackend"},
	{Pkg: "internal/loadbalancer", Recv: "IPHashStrategy", Name: "AddBackend", LeanName: "ipAddBackend"},
	{Pkg: "internal/loadbalancer", Recv: "IPHashConsistentStrategy", Name: "AddBackend", LeanName: "ipcAddBackend"},
	{Pkg: "internal/loadbalancer", Recv: "", Name: "sameBackends"},
	{Pkg: "internal/loadbalancer", Recv: "RoundRobinStrategy", Name: "RemoveBackend", LeanName: "rrRemoveBackend"},
	{Pkg: "internal/loadbalancer", Recv: "IPHashConsistentStrategy", Name: "RemoveBackend", LeanName: "ipcRemoveBackend"},
	{Pkg: "internal/loadbalancer", Recv: "IPHashStrategy", Name: "RemoveBackend", LeanName: "ipRemoveBackend"},
	{Pkg: "internal/loadbalancer", Recv: "LeastConnectionsStrategy", Name: "RemoveBackend", LeanName: "lcRemoveBackend"},
	{Pkg: "internal/loadbalancer", Recv: "IPHashStrategy", Name: "NextBackend", LeanName: "ipNextBackend", View: map[string]bool{"r": true}, ByteStr: true, Join: true},
	{Pkg: "internal/loadbalancer", Recv: "IPHashConsistentStrategy", Name: "NextBackend", LeanName: "ipcNextBackend", View: map[string]bool{"r": true}, ByteStr: true, Join: true},
	{Pkg: "internal/loadbalancer", Recv: "LoadBalancer", Name: "MarkBackendUnhealthy"},
	{Pkg: "internal/loadbalancer", Recv: "LoadBalancer", Name: "IsBackendHealthy"},
	{Pkg: "internal/loadbalancer", Recv: "LoadBalancer", Name: "handleHealthCheckFailure"},
	{Pkg: "internal/loadbalancer", Recv: "LoadBalancer", Name: "processHealthCheckResponse", View: map[string]bool{"resp": true}},
	{Pkg: "internal/loadbalancer", Recv: "LoadBalancer", Name: "handlePassiveHealthCheck", View: map[string]bool{"r": true}},
	{Pkg: "internal/plugins", Recv: "limitedResponseWriter", Name: "ensureHeaderWritten", LeanName: "limEnsureHeaderWritten"},
	{Pkg: "internal/plugins", Recv: "limitedResponseWriter", Name: "checkLimit", LeanName: "limCheckLimit"},
	{Pkg: "internal/plugins", Recv: "limitedResponseWriter", Name: "Write", LeanName: "limWrite"},
	{Pkg: "internal/plugins", Recv: "limitedResponseWriter", Name: "WriteHeader", LeanName: "limWriteHeader"},
	{Pkg: "internal/plugins", Recv: "limitedResponseWriter", Name: "Flush", LeanName: "limFlush"},
	{Pkg: "internal/plugins", Recv: "gzipResponseWriter", Name: "commitHeader", LeanName: "gzCommitHeader"},
	{Pkg: "internal/plugins", Recv: "gzipResponseWriter", Name: "WriteHeader", LeanName: "gzWriteHeader"},
	{Pkg: "internal/plugins", Recv: "gzipResponseWriter", Name: "Write", LeanName: "gzWrite"},
	{Pkg: "internal/plugins", Recv: "gzipResponseWriter", Name: "Flush", LeanName: "gzFlush"},
	{Pkg: "internal/loadbalancer", Recv: "WebSocketPool", Name: "Get", LeanName: "poolGet"},
	{Pkg: "internal/loadbalancer", Recv: "WebSocketPool", Name: "Put", LeanName: "poolPut"},
	{Pkg: "internal/loadbalancer", Recv: "WebSocketPool", Name: "Close", LeanName: "poolClose"},
	{Pkg: "internal/loadbalancer", Recv: "WebSocketPool", Name: "cleanupBackend", LeanName: "poolCleanupBackend"},
	{Pkg: "internal/loadbalancer", Recv: "", Name: "createHealthChecker"},
	{Pkg: "internal/loadbalancer", Recv: "LoadBalancer", Name: "setupWebSocketPool", Join: true},
	{Pkg: "internal/loadbalancer", Recv: "LoadBalancer", Name: "setupRateLimiter", Join: true},
	{Pkg: "internal/loadbalancer", Recv: "LoadBalancer", Name: "setupCircuitBreaker", Join: true},
	{Pkg: "internal/config", Recv: "Config", Name: "validateBackends"},
	{Pkg: "internal/config", Recv: "Config", Name: "validateServer"},
	{Pkg: "internal/config", Recv: "Config", Name: "validateTimeouts"},
	{Pkg: "internal/config", Recv: "Config", Name: "validateLoadBalancer"},
	{Pkg: "internal/config", Recv: "Config", Name: "validateHealthChecks"},
	{Pkg: "internal/config", Recv: "Config", Name: "validateRateLimit"},
	{Pkg: "internal/config", Recv: "Config", Name: "validateCircuitBreaker"},
	{Pkg: "internal/config", Recv: "Config", Name: "validateMetrics"},
	{Pkg: "internal/config", Recv: "Config", Name: "validateAdminAPI"},
	{Pkg: "internal/config", Recv: "Config", Name: "validateLogging"},
	{Pkg: "internal/config", Recv: "Config", Name: "validateRanges", Join: true},
	{Pkg: "internal/config", Recv: "Config", Name: "Validate"},
}

var (
	fset     = token.NewFileSet()
	problems []string
)

func problem(format string, a ...interface{}) {
	problems = append(problems, fmt.Sprintf(format, a...))
}

type loaded struct {
	pkg   *types.Package
	info  *types.Info
	files []*ast.File
}

func load(root, dir string, imp types.Importer) *loaded {
	full := filepath.Join(root, dir)
	ents, err := os.ReadDir(full)
	if err != nil {
		problem("cannot read %s", dir)
		return nil
	}
	var files []*ast.File
	for _, e := range ents {
		n := e.Name()
		if e.IsDir() || !strings.HasSuffix(n, ".go") || strings.HasSuffix(n, "_test.go") {
			continue
		}
		f, err := parser.ParseFile(fset, filepath.Join(full, n), nil, 0)
		if err != nil {
			problem("parse %s/%s: %v", dir, n, err)
			continue
		}
		files = append(files, f)
	}
	info := &types.Info{
		Selections: map[*ast.SelectorExpr]*types.Selection{},
		Uses:       map[*ast.Ident]types.Object{},
		Defs:       map[*ast.Ident]types.Object{},
		Types:      map[ast.Expr]types.TypeAndValue{},
	}
	conf := types.Config{Importer: imp, Error: func(err error) { problem("typecheck %s: %v", dir, err) }}
	pkg, _ := conf.Check(modPath+dir, fset, files, info)
	if pkg == nil {
		return nil
	}
	return &loaded{pkg, info, files}
}

// ---------------------------------------------------------------------------------------------
// types

func namedOf(t types.Type) *types.Named {
	for {
		switch v := t.(type) {
		case *types.Pointer:
			t = v.Elem()
		case *types.Named:
			return v
		default:
			return nil
		}
	}
}

func isPkgType(t types.Type, pkg string, names ...string) bool {
	n := namedOf(t)
	if n == nil || n.Obj().Pkg() == nil || n.Obj().Pkg().Path() != pkg {
		return false
	}
	if _, ptr := t.(*types.Pointer); ptr && pkg == "time" {
		return false
	}
	for _, x := range names {
		if n.Obj().Name() == x {
			return true
		}
	}
	return len(names) == 0
}

var structsNeeded = map[string]*types.Named{} // Lean structure name -> Go type
var structOrder []string

func needStruct(n *types.Named) string {
	name := n.Obj().Name()
	name = strings.ToUpper(name[:1]) + name[1:]
	if _, ok := structsNeeded[name]; !ok {
		structsNeeded[name] = n
		structOrder = append(structOrder, name)
	}
	return name
}

// ptrStruct: a pointer to a record of this module
func ptrStruct(t types.Type) *types.Named {
	p, ok := t.(*types.Pointer)
	if !ok {
		return nil
	}
	n := namedOf(p)
	if n == nil || n.Obj().Pkg() == nil || !strings.HasPrefix(n.Obj().Pkg().Path(), modPath) {
		return nil
	}
	if _, ok := n.Underlying().(*types.Struct); !ok {
		return nil
	}
	return n
}

// leanType maps a Go type; ok=false: not representable (the field is left out)
func leanType(t types.Type, exact bool) (string, bool) {
	if isPkgType(t, "time", "Time", "Duration") {
		return "Int", true
	}
	if isPkgType(t, "bytes", "Buffer") {
		return "(List Nat)", true // the bytes held
	}
	if isPkgType(t, "net", "Conn") {
		return "Nat", true // the identity of the connection; 0 is nil
	}
	if isPkgType(t, "net", "IP") {
		return "(Option Helios.Admin.IP)", true // a parsed address; nil = none
	}
	if p, isPtr := t.(*types.Pointer); isPtr && isPkgType(p.Elem(), "net", "IPNet") {
		return "Helios.Admin.Net", true // a parsed list entry
	}
	switch v := t.(type) {
	case *types.Basic:
		switch {
		case v.Info()&types.IsBoolean != 0:
			return "Bool", true
		case v.Info()&types.IsString != 0:
			if byteStr {
				return "Bytes", true
			}
			return "String", true
		case v.Info()&types.IsInteger != 0:
			if exact {
				switch v.Kind() {
				case types.Uint64:
					return "UInt64", true
				case types.Int64:
					return "Int64", true
				case types.Int32:
					return "Int32", true
				case types.Uint32:
					return "UInt32", true
				}
				return "", false
			}
			if byteStr && v.Kind() == types.Uint8 {
				return "UInt8", true // a byte of a string
			}
			if v.Info()&types.IsUnsigned != 0 {
				return "Nat", true
			}
			return "Int", true
		}
		return "", false
	case *types.Named:
		if v.Obj().Pkg() == nil && v.Obj().Name() == "error" {
			return errType, true
		}
		if _, ok := v.Underlying().(*types.Struct); ok && v.Obj().Pkg() != nil &&
			strings.HasSuffix(v.Obj().Pkg().Path(), "/internal/config") && v.Obj().Parent() == v.Obj().Pkg().Scope() {
			return needStruct(v), true // a configuration record: a structure of its own, by name
		}
		if st, ok := v.Underlying().(*types.Struct); ok {
			if v.Obj().Pkg() != nil && strings.HasPrefix(v.Obj().Pkg().Path(), modPath) {
				// only small records of translatable fields are used as values
				var parts []string
				for i := 0; i < st.NumFields(); i++ {
					ft, ok := leanType(st.Field(i).Type(), exact)
					if !ok {
						return "", false
					}
					parts = append(parts, ft)
				}
				if len(parts) == 0 {
					return "", false
				}
				return "(" + strings.Join(parts, " × ") + ")", true
			}
			return "", false
		}
		if _, ok := v.Underlying().(*types.Basic); ok {
			return leanType(v.Underlying(), exact)
		}
		if _, ok := v.Underlying().(*types.Signature); ok {
			return "Bool", true
		}
		if _, ok := v.Underlying().(*types.Interface); ok && v.Obj().Pkg() != nil && strings.HasPrefix(v.Obj().Pkg().Path(), modPath) {
			return "Bool", true // a component behind an interface of this module: is it there
		}
		return "", false
	case *types.Signature:
		return "Bool", true // is the function value non-nil
	case *types.Map:
		kt, ok1 := leanType(v.Key(), exact)
		vt, ok2 := leanType(v.Elem(), exact)
		if ok1 && ok2 && kt == "String" {
			return "(String → " + vt + ")", true // a total function: absent keys read as the zero value, as in Go
		}
		return "", false
	case *types.Slice:
		if n := ptrStruct(v.Elem()); n != nil && slicesOfRecords[n.Obj().Name()] {
			// a slice of pointers to records read as the list of the records (no nil entries, no aliasing
			// between entries: `AddBackend` appends a fresh pointer)
			return "(List " + needStruct(n) + ")", true
		}
		et, ok := leanType(v.Elem(), exact)
		if !ok {
			return "", false
		}
		return "(List " + et + ")", true
	case *types.Pointer:
		if n := namedOf(v); n != nil {
			if _, ok := n.Underlying().(*types.Struct); ok {
				return "Bool", true // is the pointer non-nil (nested records are handled by the caller)
			}
		}
		return "", false
	}
	return "", false
}

// fieldType: the Lean type of a struct field; pointer fields on the `nestedFields` list become the
// structure of the record they point to
func fieldType(fl *types.Var, exact bool) (string, bool) {
	if p, ok := fl.Type().(*types.Pointer); ok && nestedFields[fl.Name()] {
		if n := namedOf(p); n != nil {
			if _, ok := n.Underlying().(*types.Struct); ok {
				return needStruct(n), true
			}
		}
	}
	return leanType(fl.Type(), exact)
}

// ---------------------------------------------------------------------------------------------
// translation of one function

type fn struct {
	spec     spec
	l        *loaded
	decl     *ast.FuncDecl
	obj      *types.Func
	leanName string
	stateVar []stateVar // receiver / pointer params / externs, in output order
	params   []param    // value params
	usesNow  bool
	hasLoop  bool
	results  []string // Lean types of the Go results
	failed   bool
	aux      []string // auxiliary definitions (loops)
	loopN    int
	retWrap  string                  // inside a range loop: a `return` yields `some (..)`, falling through goes on
	views    map[types.Object]string // foreign pointer parameters read field by field
	mutates   bool                  // some tracked object is updated (a call of it cannot be used as a pure expression)
	optLocals map[types.Object]bool // locals of pointer type: `Option` of the record (nil = none)
	contK     cont                  // inside a range loop: what `continue` does
	resultOpt []bool                // results of pointer type (`Option` of the record)
	hoisted   map[*ast.CallExpr]string // atomic.AddX(&s.f, d) inside an expression: done before it, read as s.f
	asserted  map[types.Object]stateVar // f in `f, ok := x.ResponseWriter.(http.Flusher)`
	hashObjs  map[types.Object]bool     // h in `h := fnv.New32a()`: the bytes written to it so far
	usesPtrEq bool                      // the body compares two object pointers
	ptrEqType string
	viewPars []param                 // the value parameters those reads became
}

var structsWithFx = map[string]bool{}
var structsWithBuilt = map[string]bool{} // objects that construct components: the constructor calls with their numbers, in order
var structsWithClosed = map[string]bool{} // objects through which connections are closed
var structsWithOut = map[string]bool{}     // wrappers of a ResponseWriter: calls handed on, in order
var structsWithFlusher = map[string]bool{} // ... whose code asks whether the wrapped writer can flush
var noRepr = map[string]bool{}

type stateVar struct {
	name  string
	obj   types.Object
	lean  string // structure name
	named *types.Named
}

type param struct {
	name string
	obj  types.Object
	lean string
}

var translated = map[*types.Func]*fn{}

var leanKeywords = map[string]bool{"end": true, "from": true, "at": true, "open": true, "then": true, "else": true, "if": true,
	"fun": true, "let": true, "in": true, "do": true, "where": true, "with": true, "match": true, "have": true, "show": true,
	"by": true, "def": true, "theorem": true, "instance": true, "structure": true, "class": true, "namespace": true,
	"section": true, "variable": true, "universe": true, "import": true, "export": true, "private": true, "protected": true,
	"mutual": true, "partial": true, "unsafe": true, "macro": true, "syntax": true, "notation": true, "deriving": true,
	"extends": true, "for": true, "return": true, "break": true, "continue": true, "mut": true, "try": true, "catch": true,
	"finally": true, "unless": true, "calc": true, "local": true, "attribute": true, "abbrev": true, "example": true,
	"inductive": true, "axiom": true, "opaque": true, "Type": true, "Prop": true, "Sort": true, "fuel": true, "using": true,
	"nomatch": true, "nofun": true, "exists": true, "forall": true, "suffices": true, "obtain": true, "set": true}

func ident(s string) string {
	if leanKeywords[s] {
		return s + "_"
	}
	return s
}

func (f *fn) fail(n ast.Node, format string, a ...interface{}) string {
	f.failed = true
	pos := fset.Position(n.Pos())
	problems = append(problems, f.spec.Name+"\x00"+fmt.Sprintf("%s:%d: %s", filepath.Base(pos.Filename), pos.Line, fmt.Sprintf(format, a...)))
	return "sorryAx _"
}

func (f *fn) isPkgLevelVar(id *ast.Ident) bool {
	o := f.l.info.Uses[id]
	v, ok := o.(*types.Var)
	return ok && v.Pkg() != nil && v.Parent() == v.Pkg().Scope()
}

// tupleProj: field i of n of a record represented as a right-nested tuple
func tupleProj(x string, i, n int) string {
	if n == 1 {
		return x
	}
	s := x + strings.Repeat(".2", i)
	if i < n-1 {
		s += ".1"
	}
	return s
}

func (f *fn) isState(e ast.Expr) (stateVar, bool) {
	id, ok := e.(*ast.Ident)
	if !ok {
		return stateVar{}, false
	}
	o := f.l.info.Uses[id]
	if o == nil {
		o = f.l.info.Defs[id]
	}
	for _, s := range f.stateVar {
		if s.obj == o {
			return s, true
		}
	}
	return stateVar{}, false
}

func (f *fn) typeOf(e ast.Expr) types.Type {
	if tv, ok := f.l.info.Types[e]; ok {
		return tv.Type
	}
	if id, ok := e.(*ast.Ident); ok {
		if o := f.l.info.Uses[id]; o != nil {
			return o.Type()
		}
		if o := f.l.info.Defs[id]; o != nil {
			return o.Type()
		}
	}
	return nil
}

func (f *fn) lt(e ast.Expr) string {
	t := f.typeOf(e)
	if t == nil {
		return "?"
	}
	s, _ := leanType(t, f.spec.Exact)
	return s
}

func constLit(v constant.Value, lean string) string {
	switch v.Kind() {
	case constant.Int:
		s := v.ExactString()
		if strings.HasPrefix(s, "-") {
			return fmt.Sprintf("(%s : %s)", s, lean)
		}
		return fmt.Sprintf("(%s : %s)", s, lean)
	case constant.Bool:
		if constant.BoolVal(v) {
			return "true"
		}
		return "false"
	case constant.String:
		if lean == "Bytes" {
			return bytesLit(constant.StringVal(v))
		}
		return fmt.Sprintf("%q", constant.StringVal(v))
	}
	return ""
}

// a Go string constant as the list of its bytes
func bytesLit(s string) string {
	if s == "" {
		return "([] : Bytes)"
	}
	var parts []string
	for i := 0; i < len(s); i++ {
		parts = append(parts, fmt.Sprintf("0x%02X", s[i]))
	}
	return "([" + strings.Join(parts, ", ") + "] : Bytes)"
}

// the single byte of a one-byte string constant (separators handed to strings.Index / Contains / Split)
func (f *fn) oneByte(e ast.Expr) (string, bool) {
	if tv, ok := f.l.info.Types[e]; ok && tv.Value != nil && tv.Value.Kind() == constant.String {
		if s := constant.StringVal(tv.Value); len(s) == 1 {
			return fmt.Sprintf("0x%02X", s[0]), true
		}
	}
	return "", false
}

// r.Header.Get("Name") on a request handed in by pointer: the value of that header is a parameter
func (f *fn) headerGet(c *ast.CallExpr) (string, bool) {
	sel, ok := c.Fun.(*ast.SelectorExpr)
	if !ok || sel.Sel.Name != "Get" || len(c.Args) != 1 {
		return "", false
	}
	inner, ok := sel.X.(*ast.SelectorExpr)
	if !ok || inner.Sel.Name != "Header" {
		return "", false
	}
	id, ok := inner.X.(*ast.Ident)
	if !ok {
		return "", false
	}
	o := f.l.info.Uses[id]
	if o == nil || f.views[o] == "" {
		return "", false
	}
	tv, ok := f.l.info.Types[c.Args[0]]
	if !ok || tv.Value == nil || tv.Value.Kind() != constant.String {
		return "", false
	}
	name := id.Name + "_Header_" + strings.NewReplacer("-", "_").Replace(constant.StringVal(tv.Value))
	found := false
	for _, p := range f.viewPars {
		if p.name == name {
			found = true
		}
	}
	if !found {
		lt, _ := leanType(types.Typ[types.String], f.spec.Exact)
		f.viewPars = append(f.viewPars, param{name, nil, lt})
	}
	return ident(name), true
}

func (f *fn) convert(x string, from, to string, n ast.Node) string {
	if from == to {
		return x
	}
	switch from + ">" + to {
	case "Nat>Int":
		return "(Int.ofNat " + x + ")"
	case "Int>Nat":
		return "(Int.toNat " + x + ")"
	case "UInt64>Int64":
		return "(UInt64.toInt64 " + x + ")"
	case "Int32>Int64":
		return "(Int32.toInt64 " + x + ")"
	case "Int64>Int32":
		return "(Int64.toInt32 " + x + ")"
	case "UInt32>UInt64":
		return "(UInt32.toUInt64 " + x + ")"
	case "Int64>UInt64":
		return "(Int64.toUInt64 " + x + ")"
	}
	return f.fail(n, "conversion %s -> %s", from, to)
}

func (f *fn) expr(e ast.Expr) string {
	if tv, ok := f.l.info.Types[e]; ok && tv.Value != nil {
		lt, ok := leanType(tv.Type, f.spec.Exact)
		if b, isB := tv.Type.Underlying().(*types.Basic); isB && b.Info()&types.IsUntyped != 0 {
			// untyped constant: the context decides; callers handle it through lt of the other operand
			if b.Kind() == types.UntypedBool {
				lt, ok = "Bool", true
			} else if b.Kind() == types.UntypedInt {
				lt, ok = "Int", true
			}
		}
		if ok {
			if s := constLit(tv.Value, lt); s != "" {
				return s
			}
		}
	}
	switch v := e.(type) {
	case *ast.ParenExpr:
		return f.expr(v.X)
	case *ast.Ident:
		if v.Name == "nil" {
			return f.fail(v, "bare nil")
		}
		if v.Name == "true" || v.Name == "false" {
			return v.Name
		}
		return ident(v.Name)
	case *ast.SelectorExpr:
		if s, ok := f.isState(v.X); ok {
			if _, ok := leanType(f.typeOf(v), f.spec.Exact); !ok {
				return f.fail(v, "field %s.%s has no Lean type", s.name, v.Sel.Name)
			}
			return ident(s.name) + "." + ident(v.Sel.Name)
		}
		// a field of a nested record: x.healthChecks.passiveTimeout
		if inner, ok := v.X.(*ast.SelectorExpr); ok && nestedFields[inner.Sel.Name] {
			if s, ok := f.isState(inner.X); ok {
				if _, ok := leanType(f.typeOf(v), f.spec.Exact); !ok {
					return f.fail(v, "field %s has no Lean type", exprText(v))
				}
				return ident(s.name) + "." + ident(inner.Sel.Name) + "." + ident(v.Sel.Name)
			}
		}
		// a field of a foreign object handed in by pointer: a value parameter of its own
		if id, ok := v.X.(*ast.Ident); ok {
			if o := f.l.info.Uses[id]; o != nil && f.views[o] != "" {
				lt, ok := leanType(f.typeOf(v), f.spec.Exact)
				if !ok {
					return f.fail(v, "field %s has no Lean type", exprText(v))
				}
				name := id.Name + "_" + v.Sel.Name
				found := false
				for _, p := range f.viewPars {
					if p.name == name {
						found = true
					}
				}
				if !found {
					f.viewPars = append(f.viewPars, param{name, nil, lt})
				}
				return ident(name)
			}
		}
		if xt := f.typeOf(v.X); xt != nil {
			if _, isPtr := xt.(*types.Pointer); !isPtr {
				if n := namedOf(xt); n != nil {
					if st, ok := n.Underlying().(*types.Struct); ok {
						if _, ok := leanType(f.typeOf(v), f.spec.Exact); !ok {
							return f.fail(v, "field %s has no Lean type", exprText(v))
						}
						if lt, _ := leanType(xt, f.spec.Exact); strings.HasPrefix(lt, "(") {
							// a record represented as a tuple: project by position
							for i := 0; i < st.NumFields(); i++ {
								if st.Field(i).Name() == v.Sel.Name {
									return tupleProj(f.expr(v.X), i, st.NumFields())
								}
							}
						}
						return f.expr(v.X) + "." + ident(v.Sel.Name)
					}
				}
			}
		}
		return f.fail(v, "selector %s", exprText(v))
	case *ast.CompositeLit:
		return f.compositeLit(v)
	case *ast.UnaryExpr:
		if v.Op == token.AND {
			if cl, ok := v.X.(*ast.CompositeLit); ok {
				if n := namedOf(f.typeOf(cl)); n != nil {
					if _, isStruct := n.Underlying().(*types.Struct); isStruct {
						name := needStruct(n)
						var parts []string
						for _, el := range cl.Elts {
							kv, ok := el.(*ast.KeyValueExpr)
							if !ok {
								return f.fail(v, "positional record literal")
							}
							var val string
							if c, isCall := kv.Value.(*ast.CallExpr); isCall {
								if id, isId := c.Fun.(*ast.Ident); isId && id.Name == "make" {
									if _, isMap := f.typeOf(c).Underlying().(*types.Map); isMap {
										val = "(fun _ => default)"
									}
								}
							}
							if val == "" {
								if _, ok := leanType(f.typeOf(kv.Value), f.spec.Exact); !ok {
									continue
								}
								val = f.expr(kv.Value)
							}
							parts = append(parts, ident(kv.Key.(*ast.Ident).Name)+" := "+val)
						}
						return "{ (default : " + name + ") with " + strings.Join(parts, ", ") + " }"
					}
				}
			}
		}
		switch v.Op {
		case token.NOT:
			return "(!" + f.expr(v.X) + ")"
		case token.SUB:
			return "(-" + f.expr(v.X) + ")"
		}
		return f.fail(v, "unary %s", v.Op)
	case *ast.BinaryExpr:
		// comparison with nil of a function-valued field
		if id, ok := v.Y.(*ast.Ident); ok && id.Name == "nil" {
			if isPkgType(f.typeOf(v.X), "net", "Conn") {
				if v.Op == token.NEQ {
					return "(" + f.expr(v.X) + " != 0)"
				}
				return "(" + f.expr(v.X) + " == 0)"
			}
			if lt, _ := leanType(f.typeOf(v.X), f.spec.Exact); lt == errType || isPkgType(f.typeOf(v.X), "net", "IP") {
				if v.Op == token.NEQ {
					return "(" + f.expr(v.X) + ").isSome"
				}
				return "(" + f.expr(v.X) + ").isNone"
			}
			_, isSig := f.typeOf(v.X).Underlying().(*types.Signature)
			_, isPtr := f.typeOf(v.X).(*types.Pointer)
			if isSig || isPtr {
				if v.Op == token.NEQ {
					return f.expr(v.X)
				}
				if v.Op == token.EQL {
					return "(!" + f.expr(v.X) + ")"
				}
			}
			return f.fail(v, "nil comparison of %s", exprText(v.X))
		}
		if (v.Op == token.EQL || v.Op == token.NEQ) && ptrStruct(f.typeOf(v.X)) != nil && ptrStruct(f.typeOf(v.Y)) != nil {
			// identity of two objects: records have no identity of their own, so the comparison is a parameter of
			// the translated function (the theorems say what they assume of it)
			f.usesPtrEq = true
			f.ptrEqType = needStruct(ptrStruct(f.typeOf(v.X)))
			r := "(ptrEq " + f.expr(v.X) + " " + f.expr(v.Y) + ")"
			if v.Op == token.NEQ {
				r = "(!" + r + ")"
			}
			return r
		}
		x, y := f.expr(v.X), f.expr(v.Y)
		xt, yt := f.lt(v.X), f.lt(v.Y)
		// an untyped constant takes the other operand's type
		if tv, ok := f.l.info.Types[v.Y]; ok && tv.Value != nil && xt != yt {
			if s := constLit(tv.Value, xt); s != "" && xt != "?" {
				y, yt = s, xt
			}
		}
		if tv, ok := f.l.info.Types[v.X]; ok && tv.Value != nil && xt != yt {
			if s := constLit(tv.Value, yt); s != "" && yt != "?" {
				x, xt = s, yt
			}
		}
		if xt != yt && v.Op != token.SHR && v.Op != token.SHL {
			return f.fail(v, "operands of %s have Lean types %s and %s", v.Op, xt, yt)
		}
		switch v.Op {
		case token.ADD:
			return "(" + x + " + " + y + ")"
		case token.SUB:
			if xt == "Nat" {
				return f.fail(v, "unsigned subtraction")
			}
			return "(" + x + " - " + y + ")"
		case token.MUL:
			return "(" + x + " * " + y + ")"
		case token.QUO:
			if xt == "Int" {
				return "(Int.tdiv " + x + " " + y + ")" // Go truncates toward zero
			}
			return "(" + x + " / " + y + ")"
		case token.REM:
			if xt == "Nat" {
				return "(" + x + " % " + y + ")"
			}
			if xt == "Int" {
				return "(Int.tmod " + x + " " + y + ")" // Go's remainder has the sign of the dividend
			}
			return f.fail(v, "remainder of %s", xt)
		case token.SHR:
			if f.spec.Exact {
				return "(" + x + " >>> " + y + ")"
			}
			return f.fail(v, "shift in abstract mode")
		case token.LSS:
			return "(decide (" + x + " < " + y + "))"
		case token.LEQ:
			return "(decide (" + x + " ≤ " + y + "))"
		case token.GTR:
			return "(decide (" + x + " > " + y + "))"
		case token.GEQ:
			return "(decide (" + x + " ≥ " + y + "))"
		case token.EQL:
			return "(" + x + " == " + y + ")"
		case token.NEQ:
			return "(" + x + " != " + y + ")"
		case token.LAND:
			return "(" + x + " && " + y + ")"
		case token.LOR:
			return "(" + x + " || " + y + ")"
		}
		return f.fail(v, "binary %s", v.Op)
	case *ast.IndexExpr:
		if _, isMap := f.typeOf(v.X).Underlying().(*types.Map); isMap {
			return "(" + f.expr(v.X) + " " + f.expr(v.Index) + ")"
		}
		// strings.Split(s, "c")[0]: the text before the first c (the whole of s when there is none)
		if c, ok := v.X.(*ast.CallExpr); ok && byteStr && exprText(c.Fun) == "strings.Split" && len(c.Args) == 2 {
			if tv, ok := f.l.info.Types[v.Index]; ok && tv.Value != nil && tv.Value.ExactString() == "0" {
				if b, ok := f.oneByte(c.Args[1]); ok {
					return "(strSplitFirst " + f.expr(c.Args[0]) + " " + b + ")"
				}
			}
		}
		_, isSlice := f.typeOf(v.X).Underlying().(*types.Slice)
		if byteStr && f.lt(v.X) == "Bytes" {
			isSlice = true // s[i] on a string: its i-th byte
		}
		if isSlice {
			switch f.lt(v.Index) {
			case "Nat":
				return "(listGet " + f.expr(v.X) + " " + f.expr(v.Index) + ")"
			case "Int":
				return "(listGet " + f.expr(v.X) + " (Int.toNat " + f.expr(v.Index) + "))"
			}
		}
		return f.fail(v, "index of a non-map")
	case *ast.FuncLit:
		return "true" // a function value: non-nil
	case *ast.SliceExpr:
		if v.Low == nil && v.High != nil && v.Max == nil {
			_, isSlice := f.typeOf(v.X).Underlying().(*types.Slice)
			if byteStr && f.lt(v.X) == "Bytes" {
				isSlice = true // s[:i] on a string: its first i bytes
			}
			if isSlice {
				switch f.lt(v.High) {
				case "Int":
					return "(List.take (Int.toNat " + f.expr(v.High) + ") " + f.expr(v.X) + ")"
				case "Nat":
					return "(List.take " + f.expr(v.High) + " " + f.expr(v.X) + ")"
				}
			}
		}
		return f.fail(v, "slice expression")
	case *ast.CallExpr:
		return f.callExpr(v)
	}
	return f.fail(e, "expression %T", e)
}

func exprText(e ast.Expr) string {
	switch v := e.(type) {
	case *ast.Ident:
		return v.Name
	case *ast.SelectorExpr:
		return exprText(v.X) + "." + v.Sel.Name
	case *ast.CallExpr:
		return exprText(v.Fun) + "(..)"
	case *ast.ParenExpr:
		return exprText(v.X)
	case *ast.StarExpr:
		return "*" + exprText(v.X)
	}
	return fmt.Sprintf("%T", e)
}

// compositeLit: a record literal (tuple), a slice literal (list) or a string-keyed set written as a
// map literal with `true` values (a membership function)
func (f *fn) compositeLit(cl *ast.CompositeLit) string {
	t := f.typeOf(cl)
	if t == nil {
		return f.fail(cl, "composite literal without type")
	}
	switch u := t.Underlying().(type) {
	case *types.Struct:
		var parts []string
		for i, el := range cl.Elts {
			if kv, ok := el.(*ast.KeyValueExpr); ok {
				if id, ok := kv.Key.(*ast.Ident); !ok || i >= u.NumFields() || id.Name != u.Field(i).Name() {
					return f.fail(cl, "record literal fields out of order")
				}
				parts = append(parts, f.expr(kv.Value))
			} else {
				parts = append(parts, f.expr(el))
			}
		}
		if len(parts) != u.NumFields() {
			return f.fail(cl, "record literal does not set every field")
		}
		return "(" + strings.Join(parts, ", ") + ")"
	case *types.Slice:
		var parts []string
		for _, el := range cl.Elts {
			parts = append(parts, f.expr(el))
		}
		return "[" + strings.Join(parts, ", ") + "]"
	case *types.Map:
		var keys []string
		for _, el := range cl.Elts {
			kv, ok := el.(*ast.KeyValueExpr)
			if !ok {
				return f.fail(cl, "map literal form")
			}
			if id, ok := kv.Value.(*ast.Ident); !ok || id.Name != "true" {
				return f.fail(cl, "map literal with values other than true")
			}
			keys = append(keys, f.expr(kv.Key))
		}
		return "(fun (k : String) => [" + strings.Join(keys, ", ") + "].contains k)"
	}
	return f.fail(cl, "composite literal of %s", t)
}

// hoistAtomics: `atomic.AddUint64(&s.f, d)` inside an expression is the update `s.f += d` followed
// by a read of `s.f` (one atomic step; the function is one atomic step as a whole in this model)
func (f *fn) hoistAtomics(e ast.Expr, ind string) string {
	out := ""
	ast.Inspect(e, func(n ast.Node) bool {
		c, ok := n.(*ast.CallExpr)
		if !ok || len(c.Args) != 2 {
			return true
		}
		if _, done := f.hoisted[c]; done {
			return false
		}
		sel, ok := c.Fun.(*ast.SelectorExpr)
		if !ok || !strings.HasPrefix(sel.Sel.Name, "Add") {
			return true
		}
		p, ok := sel.X.(*ast.Ident)
		if !ok {
			return true
		}
		if pn, ok := f.l.info.Uses[p].(*types.PkgName); !ok || pn.Imported().Path() != "sync/atomic" {
			return true
		}
		u, ok := c.Args[0].(*ast.UnaryExpr)
		if !ok || u.Op != token.AND {
			return true
		}
		target, ok := u.X.(*ast.SelectorExpr)
		if !ok {
			return true
		}
		d := f.expr(c.Args[1])
		if tv, ok := f.l.info.Types[c.Args[1]]; ok && tv.Value != nil {
			d = constLit(tv.Value, f.lt(target))
		}
		st, ok := f.assignPath(target, "("+f.expr(target)+" + "+d+")")
		if !ok {
			return true
		}
		out += ind + st + "\n"
		if f.hoisted == nil {
			f.hoisted = map[*ast.CallExpr]string{}
		}
		f.hoisted[c] = f.expr(target)
		return false
	})
	return out
}

func (f *fn) callExpr(c *ast.CallExpr) string {
	if h, ok := f.hoisted[c]; ok {
		return h
	}
	if g, recv := f.translatedCallee(c); g != nil && !g.mutates && len(g.stateVar) == 1 && len(g.results) >= 1 && !g.hasLoop {
		// a method that only reads its receiver, used for its value
		args := []string{f.expr(recv)}
		for _, a := range c.Args {
			args = append(args, f.expr(a))
		}
		if g.usesNow {
			f.usesNow = true
			args = append(args, "now")
		}
		return "(" + g.leanName + " " + strings.Join(args, " ") + ").2"
	}
	if sel, ok := c.Fun.(*ast.SelectorExpr); ok && sel.Sel.Name == "Contains" && len(c.Args) == 1 {
		if xt := f.typeOf(sel.X); xt != nil {
			if p, isPtr := xt.(*types.Pointer); isPtr && isPkgType(p.Elem(), "net", "IPNet") {
				return "(netContains " + f.expr(sel.X) + " " + f.expr(c.Args[0]) + ")"
			}
		}
	}
	if byteStr {
		if v, ok := f.headerGet(c); ok {
			return v
		}
		// hash.Sum32() of an fnv.New32a() object: FNV-1a over the bytes written so far
		if sel, ok := c.Fun.(*ast.SelectorExpr); ok && sel.Sel.Name == "Sum32" && len(c.Args) == 0 {
			if id, ok := sel.X.(*ast.Ident); ok && f.hashObjs[f.l.info.Uses[id]] {
				if f.spec.Exact {
					return "(Helios.Hash.fnv1a " + ident(id.Name) + ")"
				}
				return "(Helios.Hash.fnv1a " + ident(id.Name) + ").toNat"
			}
		}
	}
	if sel, ok := c.Fun.(*ast.SelectorExpr); ok && len(c.Args) == 1 {
		if p, ok := sel.X.(*ast.Ident); ok {
			if pn, ok := f.l.info.Uses[p].(*types.PkgName); ok && pn.Imported().Path() == "sync/atomic" && strings.HasPrefix(sel.Sel.Name, "Load") {
				if u, ok := c.Args[0].(*ast.UnaryExpr); ok && u.Op == token.AND {
					return f.expr(u.X) // an atomic read of a field: the field
				}
			}
		}
	}
	if sel, ok := c.Fun.(*ast.SelectorExpr); ok {
		if p, ok := sel.X.(*ast.Ident); ok {
			if pn, ok := f.l.info.Uses[p].(*types.PkgName); ok {
				switch pn.Imported().Path() + "." + sel.Sel.Name {
				case "fmt.Errorf":
					// the format string and the string-valued arguments (numbers only decorate the message)
					lit, ok := c.Args[0].(*ast.BasicLit)
					if !ok {
						return f.fail(c, "fmt.Errorf without a literal format")
					}
					var sargs []string
					for _, a := range c.Args[1:] {
						if b, ok := f.typeOf(a).Underlying().(*types.Basic); ok && b.Info()&types.IsString != 0 {
							sargs = append(sargs, f.expr(a))
						}
					}
					return "(some (" + lit.Value + ", [" + strings.Join(sargs, ", ") + "]))"
				case "strings.HasPrefix":
					return "(strHasPrefix " + f.expr(c.Args[0]) + " " + f.expr(c.Args[1]) + ")"
				case "strings.TrimSpace":
					if byteStr {
						return "(Helios.Addr.trimSpace " + f.expr(c.Args[0]) + ")"
					}
				case "strings.IndexByte":
					if byteStr {
						return "(strIndexByte " + f.expr(c.Args[0]) + " " + f.expr(c.Args[1]) + ")"
					}
				case "strings.Index":
					if b, ok := f.oneByte(c.Args[1]); ok && byteStr {
						return "(strIndexByte " + f.expr(c.Args[0]) + " " + b + ")"
					}
				case "strings.Contains":
					if b, ok := f.oneByte(c.Args[1]); ok && byteStr {
						return "(Helios.Bytes.contains " + b + " " + f.expr(c.Args[0]) + ")"
					}
				}
			}
		}
	}
	// conversion
	if tv, ok := f.l.info.Types[c.Fun]; ok && tv.IsType() && len(c.Args) == 1 {
		to, ok := leanType(tv.Type, f.spec.Exact)
		if !ok {
			return f.fail(c, "conversion to %s", tv.Type)
		}
		return f.convert(f.expr(c.Args[0]), f.lt(c.Args[0]), to, c)
	}
	if id, ok := c.Fun.(*ast.Ident); ok {
		switch id.Name {
		case "append":
			if _, isSlice := f.typeOf(c.Args[0]).Underlying().(*types.Slice); isSlice && len(c.Args) >= 2 {
				if lt, _ := leanType(f.typeOf(c.Args[0]), f.spec.Exact); strings.HasPrefix(lt, "(List") {
					allLits := true
					for _, a := range c.Args[1:] {
						if cl, ok := a.(*ast.CompositeLit); !ok || len(cl.Elts) == 0 {
							allLits = false
						} else if _, kv := cl.Elts[0].(*ast.KeyValueExpr); kv {
							allLits = false // keyed literals keep the stricter path below
						}
					}
					if allLits {
						var parts []string
						for _, a := range c.Args[1:] {
							parts = append(parts, f.expr(a))
						}
						return "(" + f.expr(c.Args[0]) + " ++ [" + strings.Join(parts, ", ") + "])"
					}
				}
			}
			if len(c.Args) == 2 && !c.Ellipsis.IsValid() {
				if _, isLit := c.Args[1].(*ast.CompositeLit); !isLit {
					if sl, isSlice := f.typeOf(c.Args[0]).Underlying().(*types.Slice); isSlice && types.Identical(sl.Elem(), f.typeOf(c.Args[1])) {
						return "(" + f.expr(c.Args[0]) + " ++ [" + f.expr(c.Args[1]) + "])"
					}
				}
			}
			if len(c.Args) == 2 {
				if cl, ok := c.Args[1].(*ast.CompositeLit); ok {
					var parts []string
					for _, el := range cl.Elts {
						kv, ok := el.(*ast.KeyValueExpr)
						if !ok {
							return f.fail(c, "positional composite literal")
						}
						parts = append(parts, f.expr(kv.Value))
					}
					st, _ := f.typeOf(cl).Underlying().(*types.Struct)
					if st == nil || st.NumFields() != len(parts) {
						return f.fail(c, "composite literal does not set every field in order")
					}
					for i, el := range cl.Elts {
						if el.(*ast.KeyValueExpr).Key.(*ast.Ident).Name != st.Field(i).Name() {
							return f.fail(c, "composite literal fields out of order")
						}
					}
					return "(" + f.expr(c.Args[0]) + " ++ [(" + strings.Join(parts, ", ") + ")])"
				}
			}
			return f.fail(c, "append form")
		case "len":
			return "(Int.ofNat " + f.expr(c.Args[0]) + ".length)"
		case "make":
			if _, isSlice := f.typeOf(c).Underlying().(*types.Slice); isSlice {
				if n, ok := f.l.info.Types[c.Args[1]]; !ok || n.Value == nil || n.Value.ExactString() != "0" {
					return f.fail(c, "make with a length")
				}
				return "[]"
			}
		}
	}
	if sel, ok := c.Fun.(*ast.SelectorExpr); ok {
		if xt := f.typeOf(sel.X); xt != nil && isPkgType(xt, "bytes", "Buffer") {
			switch sel.Sel.Name {
			case "Len":
				return "(Int.ofNat " + f.expr(sel.X) + ".length)"
			case "Bytes":
				return f.expr(sel.X)
			}
			return f.fail(c, "bytes.Buffer method %s as a value", sel.Sel.Name)
		}
		// time.Now()
		if p, ok := sel.X.(*ast.Ident); ok {
			if pn, ok := f.l.info.Uses[p].(*types.PkgName); ok && pn.Imported().Path() == "time" && sel.Sel.Name == "Now" {
				f.usesNow = true
				return "now"
			}
			if pn, ok := f.l.info.Uses[p].(*types.PkgName); ok && pn.Imported().Path() == "time" && sel.Sel.Name == "Since" && len(c.Args) == 1 {
				f.usesNow = true
				return "(now - " + f.expr(c.Args[0]) + ")"
			}
		}
		// methods of time.Time / time.Duration values
		if xt := f.typeOf(sel.X); xt != nil && isPkgType(xt, "time", "Time") {
			x := f.expr(sel.X)
			switch sel.Sel.Name {
			case "IsZero":
				return "(" + x + " == 0)"
			case "Add":
				return "(" + x + " + " + f.expr(c.Args[0]) + ")"
			case "Sub":
				return "(" + x + " - " + f.expr(c.Args[0]) + ")"
			case "Before":
				return "(decide (" + x + " < " + f.expr(c.Args[0]) + "))"
			case "After":
				return "(decide (" + x + " > " + f.expr(c.Args[0]) + "))"
			case "Equal":
				return "(" + x + " == " + f.expr(c.Args[0]) + ")"
			}
			return f.fail(c, "time.Time method %s", sel.Sel.Name)
		}
	}
	return f.fail(c, "call %s", exprText(c.Fun))
}

// isOptLocal: a local of pointer type, held as an `Option`
func (f *fn) isOptLocal(id *ast.Ident) bool {
	o := f.l.info.Uses[id]
	if o == nil {
		o = f.l.info.Defs[id]
	}
	return o != nil && f.optLocals[o]
}

// optExpr: an expression of pointer type as an `Option`: nil, an `Option` local, or a record known to exist
func (f *fn) optExpr(e ast.Expr) string {
	if id, ok := e.(*ast.Ident); ok {
		if id.Name == "nil" {
			return "none"
		}
		if f.isOptLocal(id) {
			return ident(id.Name)
		}
	}
	return "(some " + f.expr(e) + ")"
}

// connClose: `c.Close()` on a net.Conn: recorded on the first tracked object (the receiver)
func (f *fn) connClose(c *ast.CallExpr) (string, bool) {
	sel, ok := c.Fun.(*ast.SelectorExpr)
	if !ok || sel.Sel.Name != "Close" || len(c.Args) != 0 || len(f.stateVar) == 0 {
		return "", false
	}
	if xt := f.typeOf(sel.X); xt == nil || !isPkgType(xt, "net", "Conn") {
		return "", false
	}
	sv := f.stateVar[0]
	structsWithClosed[sv.lean] = true
	f.mutates = true
	n := ident(sv.name)
	return "let " + n + " := { " + n + " with closedConns := " + n + ".closedConns ++ [" + f.expr(sel.X) + "] }", true
}

// downstream: a call `x.ResponseWriter.M(..)` on the writer a wrapper `x` (a tracked object) embeds.
// The call is kept as an entry ("M", number) appended to the synthetic field `out` of x: what the
// wrapper hands on, in order. `Write` is taken to accept everything it is given (len(b), nil).
func (f *fn) downstream(c *ast.CallExpr) (stateVar, string, bool) {
	sel, ok := c.Fun.(*ast.SelectorExpr)
	if !ok {
		return stateVar{}, "", false
	}
	if inner, ok := sel.X.(*ast.SelectorExpr); ok && inner.Sel.Name == "ResponseWriter" {
		if s, ok := f.isState(inner.X); ok {
			return s, sel.Sel.Name, true
		}
	}
	// f.Flush() where f came from `f, ok := x.ResponseWriter.(http.Flusher)`
	if id, ok := sel.X.(*ast.Ident); ok {
		if o := f.l.info.Uses[id]; o != nil {
			if s, ok := f.asserted[o]; ok {
				return s, sel.Sel.Name, true
			}
		}
	}
	return stateVar{}, "", false
}

func (f *fn) emitOut(s stateVar, method, num string) string {
	structsWithOut[s.lean] = true
	f.mutates = true
	n := ident(s.name)
	return "let " + n + " := { " + n + " with out := " + n + ".out ++ [(" + fmt.Sprintf("%q", method) + ", " + num + ")] }"
}

// ---- statements -------------------------------------------------------------------------------

type cont func(ind string) string

func (f *fn) retTuple(vals []string) string {
	var parts []string
	for _, s := range f.stateVar {
		parts = append(parts, ident(s.name))
	}
	parts = append(parts, vals...)
	t := strings.Join(parts, ", ")
	if len(parts) != 1 {
		t = "(" + t + ")"
	}
	if f.retWrap == "fuel" {
		if len(parts) == 1 {
			t = "(" + t + ")"
		}
		return "some (.inl " + t + ")"
	}
	if f.hasLoop {
		t = "some " + t
	}
	if f.retWrap != "" {
		return f.retWrap + " (" + t + ")"
	}
	return t
}

// isLogging: a statement that only writes a log line — a call chain rooted at the logging package
// or at a zerolog value
func (f *fn) isLogging(c *ast.CallExpr) bool {
	var e ast.Expr = c
	for {
		switch v := e.(type) {
		case *ast.CallExpr:
			e = v.Fun
		case *ast.SelectorExpr:
			if id, ok := v.X.(*ast.Ident); ok {
				if pn, ok := f.l.info.Uses[id].(*types.PkgName); ok {
					return strings.HasSuffix(pn.Imported().Path(), "/internal/logging")
				}
			}
			if t := f.typeOf(v.X); t != nil {
				if n := namedOf(t); n != nil && n.Obj().Pkg() != nil && strings.Contains(n.Obj().Pkg().Path(), "zerolog") {
					if _, isCall := v.X.(*ast.CallExpr); !isCall {
						return true
					}
				}
			}
			e = v.X
		default:
			return false
		}
	}
}

func (f *fn) isIgnoredCall(c *ast.CallExpr) bool {
	if f.isLogging(c) {
		return true
	}
	sel, ok := c.Fun.(*ast.SelectorExpr)
	if !ok {
		return false
	}
	if xt := f.typeOf(sel.X); xt != nil && (isPkgType(xt, "sync") || isPkgType(xt, "sync/atomic")) {
		switch sel.Sel.Name {
		case "Lock", "Unlock", "RLock", "RUnlock":
			return true
		}
	}
	return false
}

func (f *fn) translatedCallee(c *ast.CallExpr) (*fn, ast.Expr) {
	sel, ok := c.Fun.(*ast.SelectorExpr)
	if !ok {
		return nil, nil
	}
	if s, ok := f.l.info.Selections[sel]; ok {
		if m, ok := s.Obj().(*types.Func); ok {
			if g := translated[m]; g != nil {
				return g, sel.X
			}
		}
	}
	return nil, nil
}

// callStmt: a call of a translated method for its effect on the objects it is given
func (f *fn) callStmt(c *ast.CallExpr, ind string, k cont) string {
	if st, ok := f.connClose(c); ok {
		return ind + st + "\n" + k(ind)
	}
	if sel, ok := c.Fun.(*ast.SelectorExpr); ok {
		if xt := f.typeOf(sel.X); xt != nil && isPkgType(xt, "bytes", "Buffer") {
			if target, ok := sel.X.(*ast.SelectorExpr); ok {
				switch sel.Sel.Name {
				case "Reset":
					if st, ok := f.assignPath(target, "[]"); ok {
						return ind + st + "\n" + k(ind)
					}
				case "Write":
					if st, ok := f.assignPath(target, "("+f.expr(target)+" ++ "+f.expr(c.Args[0])+")"); ok {
						return ind + st + "\n" + k(ind)
					}
				}
			}
			return ind + f.fail(c, "bytes.Buffer call %s", sel.Sel.Name)
		}
	}
	if sv, m, ok := f.downstream(c); ok {
		switch {
		case m == "WriteHeader" && len(c.Args) == 1:
			code := f.expr(c.Args[0])
			if tv, ok := f.l.info.Types[c.Args[0]]; ok && tv.Value != nil {
				code = constLit(tv.Value, "Int")
			}
			return ind + f.emitOut(sv, m, code) + "\n" + k(ind)
		case m == "Flush" && len(c.Args) == 0:
			return ind + f.emitOut(sv, m, "(0 : Int)") + "\n" + k(ind)
		}
		return ind + f.fail(c, "call %s of the wrapped writer", m)
	}
	if sel, ok := c.Fun.(*ast.SelectorExpr); ok && effectCalls[sel.Sel.Name] {
		if inner, ok := sel.X.(*ast.SelectorExpr); ok {
			if s, ok := f.isState(inner.X); ok {
				var args []string
				for _, a := range c.Args {
					args = append(args, f.expr(a))
				}
				structsWithFx[s.lean] = true
				f.mutates = true
				n := ident(s.name)
				return ind + "let " + n + " := { " + n + " with fx := " + n + ".fx ++ [(" + strings.Join(args, ", ") + ")] }\n" + k(ind)
			}
		}
		return ind + f.fail(c, "effect call %s not rooted at a tracked object", exprText(c.Fun))
	}
	g, recv := f.translatedCallee(c)
	if g == nil {
		return ind + f.fail(c, "call statement %s", exprText(c.Fun))
	}
	if len(g.results) != 0 {
		return ind + f.fail(c, "result of %s dropped", g.spec.Name)
	}
	if g.mutates {
		f.mutates = true
	}
	var args, outs []string
	rs, ok := f.isState(recv)
	if !ok {
		return ind + f.fail(c, "receiver of %s is not a tracked object", g.spec.Name)
	}
	args = append(args, ident(rs.name))
	outs = append(outs, ident(rs.name))
	pi := 0
	if g.decl.Type.Params != nil {
		for _, fld := range g.decl.Type.Params.List {
			for range fld.Names {
				a := c.Args[pi]
				pi++
				if s, ok := f.isState(a); ok {
					args = append(args, ident(s.name))
					outs = append(outs, ident(s.name))
				} else {
					args = append(args, f.expr(a))
				}
			}
		}
	}
	if len(outs) != len(g.stateVar) {
		return ind + f.fail(c, "%s takes objects this translation does not track", g.spec.Name)
	}
	if g.usesNow {
		f.usesNow = true
		args = append(args, "now")
	}
	call := g.leanName + " " + strings.Join(args, " ")
	if len(outs) == 1 {
		return ind + "let " + outs[0] + " := " + call + "\n" + k(ind)
	}
	f.loopN++
	r := fmt.Sprintf("r_%d", f.loopN)
	s := ind + "let " + r + " := " + call + "\n"
	for i, o := range outs {
		proj := fmt.Sprintf("%s.%d", r, i+1)
		if i == len(outs)-1 && i > 0 {
			proj = r + strings.Repeat(".2", i)
		} else if i > 0 {
			proj = r + strings.Repeat(".2", i) + ".1"
		}
		s += ind + "let " + o + " := " + proj + "\n"
	}
	return s + k(ind)
}

// assignPath: `s.f = rhs` or `s.n.f = rhs` (n a nested record) as a record update of the object s
func (f *fn) assignPath(v *ast.SelectorExpr, rhs string) (string, bool) {
	if s, ok := f.isState(v.X); ok {
		n := ident(s.name)
		f.mutates = true
		return "let " + n + " := { " + n + " with " + ident(v.Sel.Name) + " := " + rhs + " }", true
	}
	if inner, ok := v.X.(*ast.SelectorExpr); ok && nestedFields[inner.Sel.Name] {
		if s, ok := f.isState(inner.X); ok {
			n, m := ident(s.name), ident(inner.Sel.Name)
			f.mutates = true
			return "let " + n + " := { " + n + " with " + m + " := { " + n + "." + m + " with " + ident(v.Sel.Name) + " := " + rhs + " } }", true
		}
	}
	return "", false
}

func (f *fn) assign(lhs ast.Expr, rhs string, ind string) string {
	switch v := lhs.(type) {
	case *ast.IndexExpr:
		// x.f[i] = rhs on a slice held in a field: the list with that position replaced
		if sel, ok := v.X.(*ast.SelectorExpr); ok {
			if _, isSlice := f.typeOf(v.X).Underlying().(*types.Slice); isSlice {
				idx := f.expr(v.Index)
				if f.lt(v.Index) == "Int" {
					idx = "(Int.toNat " + idx + ")"
				}
				if st, ok := f.assignPath(sel, "(List.set "+f.expr(v.X)+" "+idx+" "+rhs+")"); ok {
					f.mutates = true
					return ind + st + "\n"
				}
			}
		}
		// m[k] = rhs on a map held in a field
		if sel, ok := v.X.(*ast.SelectorExpr); ok {
			if _, isMap := f.typeOf(v.X).Underlying().(*types.Map); isMap {
				if st, ok := f.assignPath(sel, "(mapSet "+f.expr(v.X)+" "+f.expr(v.Index)+" "+rhs+")"); ok {
					return ind + st + "\n"
				}
			}
		}
	case *ast.Ident:
		if v.Name == "_" {
			return ""
		}
		return ind + "let " + ident(v.Name) + " := " + rhs + "\n"
	case *ast.SelectorExpr:
		if st, ok := f.assignPath(v, rhs); ok {
			return ind + st + "\n"
		}
		// x.f = rhs on a local record held as a tuple: the tuple with that component replaced
		if id, ok := v.X.(*ast.Ident); ok {
			if _, isState := f.isState(id); !isState {
				if xt := f.typeOf(id); xt != nil {
					if n := namedOf(xt); n != nil {
						if st, ok := n.Underlying().(*types.Struct); ok {
							if lt, _ := leanType(xt, f.spec.Exact); strings.HasPrefix(lt, "(") {
								var parts []string
								found := false
								for i := 0; i < st.NumFields(); i++ {
									if st.Field(i).Name() == v.Sel.Name {
										parts = append(parts, rhs)
										found = true
									} else {
										parts = append(parts, tupleProj(ident(id.Name), i, st.NumFields()))
									}
								}
								if found {
									return ind + "let " + ident(id.Name) + " := (" + strings.Join(parts, ", ") + ")\n"
								}
							}
						}
					}
				}
			}
		}
	}
	return ind + f.fail(lhs, "assignment target %s", exprText(lhs)) + "\n"
}

func (f *fn) block(list []ast.Stmt, ind string, k cont) string {
	if len(list) == 0 {
		return k(ind)
	}
	rest := func(ind string) string { return f.block(list[1:], ind, k) }
	switch s := list[0].(type) {
	case *ast.EmptyStmt:
		return rest(ind)
	case *ast.BlockStmt:
		return f.block(s.List, ind, rest)
	case *ast.DeclStmt:
		gd, ok := s.Decl.(*ast.GenDecl)
		if ok && gd.Tok == token.TYPE {
			return rest(ind) // a local record type: its values are tuples
		}
		if !ok || gd.Tok != token.VAR {
			return ind + f.fail(s, "declaration")
		}
		out := ""
		for _, sp := range gd.Specs {
			vs := sp.(*ast.ValueSpec)
			for i, n := range vs.Names {
				if pn := ptrStruct(f.l.info.Defs[n].Type()); pn != nil && len(vs.Values) == 0 {
					if f.optLocals == nil {
						f.optLocals = map[types.Object]bool{}
					}
					f.optLocals[f.l.info.Defs[n]] = true
					out += ind + "let " + ident(n.Name) + " : Option " + needStruct(pn) + " := none\n"
					continue
				}
				lt, ok := leanType(f.l.info.Defs[n].Type(), f.spec.Exact)
				if !ok {
					return ind + f.fail(s, "type of %s", n.Name)
				}
				val := ""
				if i < len(vs.Values) {
					val = f.expr(vs.Values[i])
					if tv, ok := f.l.info.Types[vs.Values[i]]; ok && tv.Value != nil {
						val = constLit(tv.Value, lt)
					}
				} else {
					switch {
					case strings.HasPrefix(lt, "(List"):
						val = "[]"
					}
					switch lt {
					case "Bool":
						val = "false"
					case "String":
						val = "\"\""
					default:
						if val == "" {
							val = "(0 : " + lt + ")"
						}
					}
				}
				out += ind + "let " + ident(n.Name) + " : " + lt + " := " + val + "\n"
			}
		}
		return out + rest(ind)
	case *ast.AssignStmt:
		if byteStr && len(s.Rhs) == 1 {
			if c, ok := s.Rhs[0].(*ast.CallExpr); ok {
				switch exprText(c.Fun) {
				case "net.SplitHostPort":
					// host, port, err := net.SplitHostPort(x): the model of the library function gives the host or fails
					if len(s.Lhs) == 3 && len(c.Args) == 1 {
						if p, ok := s.Lhs[1].(*ast.Ident); ok && p.Name == "_" {
							out := ind + "let shp_ := Helios.Addr.splitHost " + f.expr(c.Args[0]) + "\n"
							out += f.assign(s.Lhs[0], "(shp_.getD [])", ind)
							out += f.assign(s.Lhs[2], "(if shp_.isSome then (none : "+errType+") else some (\"net.SplitHostPort\", []))", ind)
							return out + rest(ind)
						}
						return ind + f.fail(s, "the port of net.SplitHostPort is used")
					}
				case "net.ParseIP":
					// ip := net.ParseIP(text): what the library makes of the text is handed in by the caller
					if id, ok := s.Lhs[0].(*ast.Ident); ok && len(s.Lhs) == 1 && len(c.Args) == 1 {
						name := "parsed_" + exprText(c.Args[0])
						found := false
						for _, p := range f.viewPars {
							if p.name == name {
								found = true
							}
						}
						if !found {
							f.viewPars = append(f.viewPars, param{name, nil, "(Option Helios.Admin.IP)"})
						}
						return ind + "let " + ident(id.Name) + " := " + ident(name) + "\n" + rest(ind)
					}
				case "fnv.New32a":
					if id, ok := s.Lhs[0].(*ast.Ident); ok && len(s.Lhs) == 1 && s.Tok == token.DEFINE {
						if f.hashObjs == nil {
							f.hashObjs = map[types.Object]bool{}
						}
						f.hashObjs[f.l.info.Defs[id]] = true
						return ind + "let " + ident(id.Name) + " : Bytes := []\n" + rest(ind)
					}
				}
				// _, _ = h.Write([]byte(x))
				if sel, ok := c.Fun.(*ast.SelectorExpr); ok && sel.Sel.Name == "Write" && len(c.Args) == 1 {
					if id, ok := sel.X.(*ast.Ident); ok && f.hashObjs[f.l.info.Uses[id]] {
						if conv, ok := c.Args[0].(*ast.CallExpr); ok && len(conv.Args) == 1 && f.lt(conv.Args[0]) == "Bytes" {
							for _, l := range s.Lhs {
								if b, ok := l.(*ast.Ident); !ok || b.Name != "_" {
									return ind + f.fail(s, "result of hash.Write is used")
								}
							}
							n := ident(id.Name)
							return ind + "let " + n + " := " + n + " ++ " + f.expr(conv.Args[0]) + "\n" + rest(ind)
						}
					}
				}
			}
		}
		if len(s.Lhs) == 2 && len(s.Rhs) == 1 {
			if ix, ok := s.Rhs[0].(*ast.IndexExpr); ok {
				if _, ok := f.isState(s.Lhs[0]); ok {
					// obj, exists := m[k]: the object (if any) is handed in by the caller, with whether it exists
					return rest(ind)
				}
				_ = ix
			}
			if c, ok := s.Rhs[0].(*ast.CallExpr); ok {
				if sv, m, ok := f.downstream(c); ok && m == "Write" && len(c.Args) == 1 {
					n := "(Int.ofNat " + f.expr(c.Args[0]) + ".length)"
					out := ind + f.emitOut(sv, m, n) + "\n"
					out += f.assign(s.Lhs[0], n, ind)
					out += f.assign(s.Lhs[1], "(none : "+errType+")", ind)
					return out + rest(ind)
				}
			}
			// f, ok := x.ResponseWriter.(http.Flusher)
			if ta, ok := s.Rhs[0].(*ast.TypeAssertExpr); ok && s.Tok == token.DEFINE {
				if inner, ok := ta.X.(*ast.SelectorExpr); ok && inner.Sel.Name == "ResponseWriter" {
					if sv, ok := f.isState(inner.X); ok && exprText(ta.Type) == "http.Flusher" {
						fid, okid := s.Lhs[0].(*ast.Ident), s.Lhs[1].(*ast.Ident)
						if f.asserted == nil {
							f.asserted = map[types.Object]stateVar{}
						}
						if o := f.l.info.Defs[fid]; o != nil {
							f.asserted[o] = sv
						}
						structsWithFlusher[sv.lean] = true
						return ind + "let " + ident(okid.Name) + " := " + ident(sv.name) + ".rwFlusher\n" + rest(ind)
					}
				}
			}
		}
		if len(s.Lhs) == 1 && len(s.Rhs) == 1 {
			// x := g(args) of a translated function with a loop: it is given the caller's fuel; out of fuel there is out of fuel here
			if c, ok := s.Rhs[0].(*ast.CallExpr); ok {
				if g := f.fuelledCallee(c); g != nil {
					id, isId := s.Lhs[0].(*ast.Ident)
					if !isId || len(c.Args) != len(g.params) {
						return ind + f.fail(s, "call of %s", g.leanName)
					}
					args := []string{}
					for i, a := range c.Args {
						x, ok := crossConvert(f.expr(a), f.lt(a), g.params[i].lean)
						if !ok {
							return ind + f.fail(s, "argument %d of %s: %s -> %s", i, g.leanName, f.lt(a), g.params[i].lean)
						}
						args = append(args, x)
					}
					back, ok := crossConvert(ident(id.Name)+"_", g.results[0], f.lt(s.Lhs[0]))
					if !ok {
						return ind + f.fail(s, "result of %s: %s -> %s", g.leanName, g.results[0], f.lt(s.Lhs[0]))
					}
					out := ind + "match " + g.leanName + " fuel " + strings.Join(args, " ") + " with\n"
					out += ind + "| none => none\n"
					out += ind + "| some " + ident(id.Name) + "_ =>\n"
					out += ind + "  let " + ident(id.Name) + " := " + back + "\n"
					return out + rest(ind+"  ")
				}
			}
			if c, ok := s.Rhs[0].(*ast.CallExpr); ok {
				if id, ok := s.Lhs[0].(*ast.Ident); ok && id.Name == "_" {
					if st, ok := f.connClose(c); ok {
						return ind + st + "\n" + rest(ind)
					}
				}
			}
			// x.f = NewT(args): the component is there afterwards; the constructor and the numbers it was given are recorded
			if c, ok := s.Rhs[0].(*ast.CallExpr); ok {
				fname := ""
				switch fn := c.Fun.(type) {
				case *ast.Ident:
					fname = fn.Name
				case *ast.SelectorExpr:
					fname = fn.Sel.Name
				}
				if sel, ok := s.Lhs[0].(*ast.SelectorExpr); ok && strings.HasPrefix(fname, "New") {
					if sv, ok := f.isState(sel.X); ok && f.lt(sel) == "Bool" {
						var nums []string
						addNum := func(x string, lt string) {
							switch lt {
							case "Int":
								nums = append(nums, x)
							case "Nat":
								nums = append(nums, "(Int.ofNat "+x+")")
							}
						}
						for _, a := range c.Args {
							at := f.typeOf(a)
							lt, _ := leanType(at, f.spec.Exact)
							if n := namedOf(at); n != nil {
								if st, isStruct := n.Underlying().(*types.Struct); isStruct && strings.HasPrefix(lt, "(") {
									for i := 0; i < st.NumFields(); i++ {
										ft, _ := leanType(st.Field(i).Type(), f.spec.Exact)
										addNum(tupleProj(f.expr(a), i, st.NumFields()), ft)
									}
									continue
								}
							}
							addNum(f.expr(a), lt)
						}
						structsWithBuilt[sv.lean] = true
						f.mutates = true
						n := ident(sv.name)
						out := ind + "let " + n + " := { " + n + " with built := " + n + ".built ++ [(" + fmt.Sprintf("%q", fname) + ", [" + strings.Join(nums, ", ") + "])] }\n"
						if st, ok := f.assignPath(sel, "true"); ok {
							out += ind + st + "\n"
						}
						return out + rest(ind)
					}
				}
			}
			// x = &T{..} on a tracked object: a fresh record with the listed fields
			if u, ok := s.Rhs[0].(*ast.UnaryExpr); ok && u.Op == token.AND {
				if cl, ok := u.X.(*ast.CompositeLit); ok {
					if sv, ok := f.isState(s.Lhs[0]); ok {
						var parts []string
						for _, el := range cl.Elts {
							kv, ok := el.(*ast.KeyValueExpr)
							if !ok {
								return ind + f.fail(s, "positional record literal")
							}
							if _, ok := leanType(f.typeOf(kv.Value), f.spec.Exact); !ok {
								continue // a field without a Lean representation
							}
							parts = append(parts, ident(kv.Key.(*ast.Ident).Name)+" := "+f.expr(kv.Value))
						}
						f.mutates = true
						return ind + "let " + ident(sv.name) + " : " + sv.lean + " := { (default : " + sv.lean + ") with " + strings.Join(parts, ", ") + " }\n" + rest(ind)
					}
				}
			}
			// m[k] = obj: the caller keeps the object under the key
			if ix, ok := s.Lhs[0].(*ast.IndexExpr); ok {
				if _, isMap := f.typeOf(ix.X).Underlying().(*types.Map); isMap {
					if _, ok := f.isState(s.Rhs[0]); ok {
						return rest(ind)
					}
				}
			}
			// object handed in by the caller
			if c, ok := s.Rhs[0].(*ast.CallExpr); ok {
				if sel, ok := c.Fun.(*ast.SelectorExpr); ok && f.spec.Extern[sel.Sel.Name] {
					return rest(ind)
				}
			}
			if c, ok := s.Rhs[0].(*ast.CallExpr); ok && f.isLogging(c) {
				return rest(ind) // a logger value: only used by log statements
			}
			if c, ok := s.Rhs[0].(*ast.CallExpr); ok {
				if g, recv := f.translatedCallee(c); g != nil && len(g.results) == 1 && g.mutates {
					f.mutates = true
					// x := obj.method() of a translated method: the objects it was given come back with the result
					rs, ok := f.isState(recv)
					if !ok || len(g.stateVar) != 1 {
						return ind + f.fail(s, "call of %s on an untracked object", g.spec.Name)
					}
					if g.usesNow {
						f.usesNow = true
					}
					f.loopN++
					r := fmt.Sprintf("r_%d", f.loopN)
					call := g.leanName + " " + ident(rs.name)
					for _, a := range c.Args {
						if _, isObj := f.isState(a); isObj {
							return ind + f.fail(s, "call of %s with a tracked object as argument", g.spec.Name)
						}
						call += " " + f.expr(a)
					}
					if g.usesNow {
						call += " now"
					}
					out := ind + "let " + r + " := " + call + "\n" + ind + "let " + ident(rs.name) + " := " + r + ".1\n"
					if id, ok := s.Lhs[0].(*ast.Ident); ok && id.Name != "_" {
						out += ind + "let " + ident(id.Name) + " := " + r + ".2\n"
					}
					return out + rest(ind)
				}
			}
			if pre := f.hoistAtomics(s.Rhs[0], ind); pre != "" {
				return pre + f.block(list, ind, k) // the call is now a plain read
			}
			if id, ok := s.Lhs[0].(*ast.Ident); ok && f.isOptLocal(id) && s.Tok == token.ASSIGN {
				return ind + "let " + ident(id.Name) + " := " + f.optExpr(s.Rhs[0]) + "\n" + rest(ind)
			}
			rhs := f.expr(s.Rhs[0])
			lt := f.lt(s.Lhs[0])
			if tv, ok := f.l.info.Types[s.Rhs[0]]; ok && tv.Value != nil && lt != "?" && lt != "" {
				if c := constLit(tv.Value, lt); c != "" {
					rhs = c
				}
			}
			switch s.Tok {
			case token.ASSIGN, token.DEFINE:
				return f.assign(s.Lhs[0], rhs, ind) + rest(ind)
			case token.ADD_ASSIGN:
				return f.assign(s.Lhs[0], "("+f.expr(s.Lhs[0])+" + "+rhs+")", ind) + rest(ind)
			case token.SUB_ASSIGN:
				if lt == "Nat" {
					return ind + f.fail(s, "unsigned -=")
				}
				return f.assign(s.Lhs[0], "("+f.expr(s.Lhs[0])+" - "+rhs+")", ind) + rest(ind)
			}
		}
		return ind + f.fail(s, "assignment form")
	case *ast.IncDecStmt:
		lt := f.lt(s.X)
		one := "1"
		if s.Tok == token.INC {
			return f.assign(s.X, "("+f.expr(s.X)+" + "+one+")", ind) + rest(ind)
		}
		if lt == "Nat" {
			return ind + f.fail(s, "unsigned --")
		}
		return f.assign(s.X, "("+f.expr(s.X)+" - "+one+")", ind) + rest(ind)
	case *ast.ExprStmt:
		if c, ok := s.X.(*ast.CallExpr); ok {
			if f.isIgnoredCall(c) {
				return rest(ind)
			}
			return f.callStmt(c, ind, rest)
		}
		return ind + f.fail(s, "expression statement")
	case *ast.DeferStmt:
		if f.isIgnoredCall(s.Call) {
			return rest(ind)
		}
		if sel, ok := s.Call.Fun.(*ast.SelectorExpr); ok && sel.Sel.Name == "unlockAndNotify" {
			return rest(ind) // releases the lock and reports queued changes: no state of its own
		}
		return ind + f.fail(s, "defer %s", exprText(s.Call.Fun))
	case *ast.ReturnStmt:
		if len(s.Results) == 1 && len(f.results) == 2 {
			if c, ok := s.Results[0].(*ast.CallExpr); ok && len(c.Args) == 1 {
				n := "(Int.ofNat " + f.expr(c.Args[0]) + ".length)"
				// return x.ResponseWriter.Write(b): handed on, taken whole
				if sv, m, ok := f.downstream(c); ok && m == "Write" {
					return ind + f.emitOut(sv, m, n) + "\n" + ind + f.retTuple([]string{n, "(none : " + errType + ")"}) + "\n"
				}
				// return x.buf.Write(b): appended (a bytes.Buffer write does not fail)
				if sel, ok := c.Fun.(*ast.SelectorExpr); ok && sel.Sel.Name == "Write" {
					if xt := f.typeOf(sel.X); xt != nil && isPkgType(xt, "bytes", "Buffer") {
						if target, ok := sel.X.(*ast.SelectorExpr); ok {
							if st, ok := f.assignPath(target, "("+f.expr(target)+" ++ "+f.expr(c.Args[0])+")"); ok {
								return ind + st + "\n" + ind + f.retTuple([]string{n, "(none : " + errType + ")"}) + "\n"
							}
						}
					}
				}
			}
		}
		var vals []string
		for i, r := range s.Results {
			v := ""
			if i < len(f.resultOpt) && f.resultOpt[i] {
				vals = append(vals, f.optExpr(r))
				continue
			}
			if id, ok := r.(*ast.Ident); ok && id.Name == "nil" && i < len(f.results) && f.results[i] == "Nat" {
				vals = append(vals, "(0 : Nat)")
				continue
			} else if id, ok := r.(*ast.Ident); ok && id.Name == "nil" {
				v = "none"
			} else if id, ok := r.(*ast.Ident); ok && i < len(f.results) && f.results[i] == errType && f.isPkgLevelVar(id) {
				// a package-level error variable: its name
				v = fmt.Sprintf("(some (%q, []))", id.Name)
			} else {
				v = f.expr(r)
			}
			if i < len(f.results) && !strings.HasPrefix(v, "none") && !strings.HasPrefix(v, "(some ") {
				want := f.results[i]
				if tv, ok := f.l.info.Types[r]; ok && tv.Value != nil {
					if c := constLit(tv.Value, want); c != "" {
						v = c
					}
				} else if got := f.lt(r); got != want {
					v = f.convert(v, got, want, r)
				}
			}
			vals = append(vals, v)
		}
		return ind + f.retTuple(vals) + "\n"
	case *ast.IfStmt:
		out := ""
		if s.Init != nil {
			return f.block([]ast.Stmt{s.Init, &ast.IfStmt{If: s.If, Cond: s.Cond, Body: s.Body, Else: s.Else}}, ind, rest)
		}
		if f.spec.Join && s.Else == nil && onlyAssigns(s.Body) {
			// if c { x = e1; y = e2 }  ==>  let x := if c then e1 else x; let y := if c then e2 else y
			f.loopN++
			cn := fmt.Sprintf("c_%d", f.loopN)
			out += ind + "let " + cn + " := " + f.expr(s.Cond) + "\n"
			joinOK := true
			for _, st := range s.Body.List {
				as := st.(*ast.AssignStmt)
				rhs := f.expr(as.Rhs[0])
				if tv, ok := f.l.info.Types[as.Rhs[0]]; ok && tv.Value != nil {
					if c := constLit(tv.Value, f.lt(as.Lhs[0])); c != "" {
						rhs = c
					}
				}
				switch l := as.Lhs[0].(type) {
				case *ast.Ident:
					out += ind + "let " + ident(l.Name) + " := if " + cn + " then " + rhs + " else " + ident(l.Name) + "\n"
				case *ast.SelectorExpr:
					// the assignment as a let, turned into a conditional re-binding of the record
					upd := strings.TrimSpace(f.assign(l, rhs, ""))
					id := l.X.(*ast.Ident)
					pre := "let " + ident(id.Name) + " := "
					if _, isState := f.isState(id); isState || !strings.HasPrefix(upd, pre) {
						joinOK = false
						break
					}
					out += ind + pre + "if " + cn + " then " + strings.TrimPrefix(upd, pre) + " else " + ident(id.Name) + "\n"
				}
			}
			if !joinOK {
				return ind + f.fail(s, "conditional assignment form")
			}
			return out + rest(ind)
		}
		out += ind + "if " + f.expr(s.Cond) + " then\n"
		out += f.block(s.Body.List, ind+"  ", rest)
		out += ind + "else\n"
		switch e := s.Else.(type) {
		case nil:
			out += rest(ind + "  ")
		case *ast.BlockStmt:
			out += f.block(e.List, ind+"  ", rest)
		case *ast.IfStmt:
			out += f.block([]ast.Stmt{e}, ind+"  ", rest)
		}
		return out
	case *ast.SwitchStmt:
		if s.Init != nil {
			return ind + f.fail(s, "switch form")
		}
		tagless := s.Tag == nil // `switch { case cond, cond: .. }`: the first clause one of whose conditions holds
		var def *ast.CaseClause
		var cases []*ast.CaseClause
		for _, c := range s.Body.List {
			cc := c.(*ast.CaseClause)
			for _, st := range cc.Body {
				if b, ok := st.(*ast.BranchStmt); ok {
					return ind + f.fail(b, "%s in switch", b.Tok)
				}
			}
			if cc.List == nil {
				def = cc
			} else {
				cases = append(cases, cc)
			}
		}
		var emit func(i int, ind string) string
		emit = func(i int, ind string) string {
			if i == len(cases) {
				if def != nil {
					return f.block(def.Body, ind, rest)
				}
				return rest(ind)
			}
			var conds []string
			// the synthetic comparison has no type info: build it by hand
			conds = conds[:0]
			for _, v := range cases[i].List {
				if tagless {
					conds = append(conds, f.expr(v))
					continue
				}
				y := f.expr(v)
				if tv, ok := f.l.info.Types[v]; ok && tv.Value != nil {
					y = constLit(tv.Value, f.lt(s.Tag))
				}
				conds = append(conds, "("+f.expr(s.Tag)+" == "+y+")")
			}
			c := strings.Join(conds, " || ")
			out := ind + "if " + c + " then\n" + f.block(cases[i].Body, ind+"  ", rest) + ind + "else\n" + emit(i+1, ind+"  ")
			return out
		}
		return emit(0, ind)
	case *ast.ForStmt:
		if s.Init != nil {
			return f.block([]ast.Stmt{s.Init, &ast.ForStmt{For: s.For, Cond: s.Cond, Post: s.Post, Body: s.Body}}, ind, rest)
		}
		hasRet := false
		ast.Inspect(s.Body, func(n ast.Node) bool {
			if _, ok := n.(*ast.ReturnStmt); ok {
				hasRet = true
			}
			return true
		})
		if s.Post != nil || hasRet {
			return f.forLoop(s, ind, rest)
		}
		return f.loop(s, ind, rest)
	case *ast.RangeStmt:
		return f.rangeLoop(s, ind, rest)
	case *ast.BranchStmt:
		if s.Tok == token.CONTINUE && s.Label == nil && f.contK != nil {
			return f.contK(ind)
		}
		return ind + f.fail(s, "%s outside a translated range loop", s.Tok) + "\n"
	}
	return ind + f.fail(list[0], "statement %T", list[0]) + "\n"
}

// loop: `for cond { body }` becomes a recursion on fuel over the variables the body assigns
func (f *fn) loop(s *ast.ForStmt, ind string, k cont) string {
	if s.Init != nil || s.Post != nil || s.Cond == nil {
		return ind + f.fail(s, "for form")
	}
	assigned := map[types.Object]*ast.Ident{}
	var order []types.Object
	bad := false
	ast.Inspect(s.Body, func(n ast.Node) bool {
		switch v := n.(type) {
		case *ast.AssignStmt:
			for _, l := range v.Lhs {
				id, ok := l.(*ast.Ident)
				if !ok {
					bad = true
					continue
				}
				o := f.l.info.Uses[id]
				if o == nil {
					o = f.l.info.Defs[id]
					if v.Tok == token.DEFINE && o != nil {
						continue // a fresh local of the body
					}
				}
				if o != nil && assigned[o] == nil {
					assigned[o] = id
					order = append(order, o)
				}
			}
		case *ast.IncDecStmt:
			id, ok := v.X.(*ast.Ident)
			if !ok {
				bad = true
				return true
			}
			if o := f.l.info.Uses[id]; o != nil && assigned[o] == nil {
				assigned[o] = id
				order = append(order, o)
			}
		case *ast.BranchStmt, *ast.ReturnStmt, *ast.ForStmt, *ast.RangeStmt:
			bad = true
		}
		return true
	})
	if bad || len(order) == 0 {
		return ind + f.fail(s, "loop body form")
	}
	sort.Slice(order, func(i, j int) bool { return order[i].Pos() < order[j].Pos() })
	// free variables: everything else the condition and the body mention
	free := map[types.Object]bool{}
	var freeOrder []types.Object
	note := func(n ast.Node) {
		ast.Inspect(n, func(n ast.Node) bool {
			if id, ok := n.(*ast.Ident); ok {
				if o, ok := f.l.info.Uses[id].(*types.Var); ok && !o.IsField() && assigned[o] == nil && !free[o] && o.Parent() != o.Pkg().Scope() {
					free[o] = true
					freeOrder = append(freeOrder, o)
				}
			}
			return true
		})
	}
	note(s.Cond)
	note(s.Body)
	sort.Slice(freeOrder, func(i, j int) bool { return freeOrder[i].Pos() < freeOrder[j].Pos() })
	f.loopN++
	name := fmt.Sprintf("%s_loop%d", f.leanName, f.loopN)
	var vnames, vtypes, fargs, fnames []string
	for _, o := range order {
		lt, ok := leanType(o.Type(), f.spec.Exact)
		if !ok {
			return ind + f.fail(s, "loop variable %s", o.Name())
		}
		vnames = append(vnames, ident(o.Name()))
		vtypes = append(vtypes, lt)
	}
	for _, o := range freeOrder {
		lt, ok := leanType(o.Type(), f.spec.Exact)
		if !ok {
			return ind + f.fail(s, "loop parameter %s", o.Name())
		}
		fargs = append(fargs, "("+ident(o.Name())+" : "+lt+")")
		fnames = append(fnames, ident(o.Name()))
	}
	tup := "(" + strings.Join(vnames, ", ") + ")"
	ttyp := "(" + strings.Join(vtypes, " × ") + ")"
	if len(vnames) == 1 {
		tup, ttyp = vnames[0], vtypes[0]
	}
	recur := func(ind string) string {
		return ind + strings.TrimSpace(name+" "+strings.Join(fnames, " ")) + " fuel " + tup + "\n"
	}
	body := f.block(s.Body.List, "      ", recur)
	aux := fmt.Sprintf("/-- the `for` loop of `%s` (line %d): `none` = out of fuel -/\ndef %s %s: Nat → %s → Option %s\n  | 0, _ => none\n  | fuel+1, %s =>\n    if %s then\n%s    else some %s\n",
		f.spec.Name, fset.Position(s.Pos()).Line, name, strings.Join(append(fargs, ""), " "), ttyp, ttyp, tup, f.expr(s.Cond), body, tup)
	f.aux = append(f.aux, aux)
	out := ind + "match " + strings.TrimSpace(name+" "+strings.Join(fnames, " ")) + " fuel " + tup + " with\n"
	out += ind + "| none => none\n"
	out += ind + "| some " + tup + " =>\n" + k(ind+"  ")
	return out
}

// forLoop: `for ; cond; post { body }` whose body may return: a recursion on fuel over the tracked
// objects and the locals the body or the post statement assign; `some (.inl r)` = the body returned r,
// `some (.inr v)` = the condition failed with the variables at v, `none` = out of fuel
func (f *fn) forLoop(s *ast.ForStmt, ind string, k cont) string {
	if s.Cond == nil || f.retWrap != "" {
		return ind + f.fail(s, "for form")
	}
	bad := false
	carried := map[types.Object]bool{}
	var carriedOrder []types.Object
	inBody := func(o types.Object) bool { return o.Pos() >= s.Body.Pos() && o.Pos() < s.Body.End() }
	noteAssigned := func(e ast.Expr, define bool) {
		id, ok := e.(*ast.Ident)
		if !ok {
			return // a field of a tracked object: the objects are carried as a whole
		}
		if id.Name == "_" {
			return
		}
		o := f.l.info.Uses[id]
		if o == nil {
			if define && f.l.info.Defs[id] != nil {
				return
			}
			bad = true
			return
		}
		if inBody(o) {
			return
		}
		if !carried[o] {
			carried[o] = true
			carriedOrder = append(carriedOrder, o)
		}
	}
	scan := func(n ast.Node) bool {
		switch v := n.(type) {
		case *ast.AssignStmt:
			for _, l := range v.Lhs {
				noteAssigned(l, v.Tok == token.DEFINE)
			}
		case *ast.IncDecStmt:
			noteAssigned(v.X, false)
		case *ast.BranchStmt:
			if v.Tok != token.CONTINUE || v.Label != nil {
				bad = true
			}
		case *ast.ForStmt, *ast.RangeStmt, *ast.DeferStmt:
			if n != ast.Node(s) {
				bad = true
			}
		}
		return true
	}
	ast.Inspect(s.Body, scan)
	if s.Post != nil {
		ast.Inspect(s.Post, scan)
	}
	if bad {
		return ind + f.fail(s, "loop body form")
	}
	sort.Slice(carriedOrder, func(i, j int) bool { return carriedOrder[i].Pos() < carriedOrder[j].Pos() })
	localType := func(o types.Object) (string, bool) {
		if f.optLocals[o] {
			return "(Option " + needStruct(ptrStruct(o.Type())) + ")", true
		}
		return leanType(o.Type(), f.spec.Exact)
	}
	isStateObj := func(o types.Object) bool {
		for _, sv := range f.stateVar {
			if sv.obj == o {
				return true
			}
		}
		return false
	}
	free := map[types.Object]bool{}
	var freeOrder []types.Object
	note := func(n ast.Node) {
		ast.Inspect(n, func(n ast.Node) bool {
			if id, ok := n.(*ast.Ident); ok {
				if o, ok := f.l.info.Uses[id].(*types.Var); ok && !o.IsField() && !carried[o] && !free[o] && !isStateObj(o) && !inBody(o) && o.Pkg() != nil && o.Parent() != o.Pkg().Scope() {
					free[o] = true
					freeOrder = append(freeOrder, o)
				}
			}
			return true
		})
	}
	note(s.Cond)
	note(s.Body)
	if s.Post != nil {
		note(s.Post)
	}
	sort.Slice(freeOrder, func(i, j int) bool { return freeOrder[i].Pos() < freeOrder[j].Pos() })
	var fargs, fnames, cnames, ctypes []string
	for _, o := range freeOrder {
		lt, ok := localType(o)
		if !ok {
			return ind + f.fail(s, "loop parameter %s", o.Name())
		}
		fargs = append(fargs, "("+ident(o.Name())+" : "+lt+")")
		fnames = append(fnames, ident(o.Name()))
	}
	for _, sv := range f.stateVar {
		cnames = append(cnames, ident(sv.name))
		ctypes = append(ctypes, sv.lean)
	}
	for _, o := range carriedOrder {
		lt, ok := localType(o)
		if !ok {
			return ind + f.fail(s, "loop variable %s", o.Name())
		}
		cnames = append(cnames, ident(o.Name()))
		ctypes = append(ctypes, lt)
	}
	ctup, ctyp := "("+strings.Join(cnames, ", ")+")", "("+strings.Join(ctypes, " × ")+")"
	if len(cnames) == 1 {
		ctup, ctyp = cnames[0], ctypes[0]
	}
	ast.Inspect(s.Body, func(n ast.Node) bool {
		if sel, ok := n.(*ast.SelectorExpr); ok {
			if p, ok := sel.X.(*ast.Ident); ok {
				if pn, ok := f.l.info.Uses[p].(*types.PkgName); ok && pn.Imported().Path() == "time" && (sel.Sel.Name == "Now" || sel.Sel.Name == "Since") {
					f.usesNow = true
				}
			}
		}
		return true
	})
	hasNow := false
	for _, n := range fnames {
		if n == "now" {
			hasNow = true
		}
	}
	if f.usesNow && !hasNow {
		fargs = append(fargs, "(now : Int)")
		fnames = append(fnames, "now")
	}
	f.loopN++
	name := fmt.Sprintf("%s_loop%d", f.leanName, f.loopN)
	var rt []string
	for _, sv := range f.stateVar {
		rt = append(rt, sv.lean)
	}
	rt = append(rt, f.results...)
	ret := "(" + strings.Join(rt, " × ") + ")"
	call := strings.TrimSpace(name + " " + strings.Join(fnames, " "))
	next := func(ind string) string {
		post := ""
		if s.Post != nil {
			post = f.block([]ast.Stmt{s.Post}, ind, func(ind string) string { return "" })
		}
		return post + ind + call + " fuel " + ctup + "\n"
	}
	usedNowBefore := f.usesNow
	f.retWrap, f.contK = "fuel", next
	body := f.block(s.Body.List, "      ", next)
	f.retWrap, f.contK = "", nil
	if f.usesNow && !usedNowBefore {
		return ind + f.fail(s, "the loop reads the clock before the function does")
	}
	aux := fmt.Sprintf("/-- the `for` loop of `%s` (line %d): `some (.inl r)` = the body returned r, `some (.inr v)` = the condition failed with the variables at v, `none` = out of fuel -/\ndef %s %s: Nat → %s → Option (Sum %s %s)\n  | 0, _ => none\n  | fuel+1, %s =>\n    if %s then\n%s    else some (.inr %s)\n",
		f.spec.Name, fset.Position(s.Pos()).Line, name, strings.Join(append(fargs, ""), " "), ctyp, ret, ctyp, ctup, f.expr(s.Cond), body, ctup)
	f.aux = append(f.aux, aux)
	out := ind + "match " + call + " fuel " + ctup + " with\n"
	out += ind + "| none => none\n"
	out += ind + "| some (.inl r_) => some r_\n"
	out += ind + "| some (.inr " + ctup + ") =>\n" + k(ind+"  ")
	return out
}

// rangeLoop: `for i, x := range xs { … }` whose body only reads and may return: a recursion over the
// list that yields `some result` when the body returns and `none` when the list is exhausted
func (f *fn) rangeLoop(s *ast.RangeStmt, ind string, k cont) string {
	if s.Tok != token.DEFINE {
		return ind + f.fail(s, "range without :=")
	}
	if _, isSlice := f.typeOf(s.X).Underlying().(*types.Slice); !isSlice {
		return ind + f.fail(s, "range over a non-slice")
	}
	bad := false
	// locals of the enclosing function the body assigns: carried from one iteration to the next
	carried := map[types.Object]bool{}
	var carriedOrder []types.Object
	noteAssigned := func(e ast.Expr, define bool) {
		id, ok := e.(*ast.Ident)
		if !ok {
			// a field (or an element of a field) of a tracked object: the objects travel through the recursion
			base := e
			for {
				if se, isSel := base.(*ast.SelectorExpr); isSel {
					base = se.X
				} else if ie, isIdx := base.(*ast.IndexExpr); isIdx {
					base = ie.X
				} else {
					break
				}
			}
			if _, isSt := f.isState(base); isSt {
				return
			}
			bad = true
			return
		}
		if id.Name == "_" {
			return
		}
		o := f.l.info.Uses[id]
		if o == nil {
			if define && f.l.info.Defs[id] != nil {
				return // a fresh local of the body
			}
			bad = true
			return
		}
		if o.Pos() >= s.Body.Pos() && o.Pos() < s.Body.End() {
			return // declared inside the body
		}
		if !carried[o] {
			carried[o] = true
			carriedOrder = append(carriedOrder, o)
		}
	}
	ast.Inspect(s.Body, func(n ast.Node) bool {
		switch v := n.(type) {
		case *ast.AssignStmt:
			for _, l := range v.Lhs {
				noteAssigned(l, v.Tok == token.DEFINE)
			}
		case *ast.IncDecStmt:
			noteAssigned(v.X, false)
		case *ast.BranchStmt:
			if v.Tok != token.CONTINUE || v.Label != nil {
				bad = true
			}
		case *ast.ForStmt, *ast.RangeStmt, *ast.DeferStmt:
			bad = true
		}
		return true
	})
	// the loop walks the slice as it was when the loop began (Go copies the slice header), but writes to its elements
	// land in the shared array and WOULD be seen by later iterations: accepted only where the block that writes leaves
	// the function (`xs[i] = ..; xs = xs[:n]; return`)
	rangedText := exprText(s.X)
	var checkBlocks func(list []ast.Stmt)
	checkBlocks = func(list []ast.Stmt) {
		writes := false
		for _, st := range list {
			if as, ok := st.(*ast.AssignStmt); ok {
				for _, l := range as.Lhs {
					t := exprText(l)
					if ie, isIdx := l.(*ast.IndexExpr); isIdx {
						t = exprText(ie.X)
					}
					if t == rangedText {
						writes = true
					}
				}
			}
			ast.Inspect(st, func(n ast.Node) bool {
				if b, ok := n.(*ast.BlockStmt); ok {
					checkBlocks(b.List)
					return false
				}
				return true
			})
		}
		if writes {
			if _, ok := list[len(list)-1].(*ast.ReturnStmt); !ok {
				bad = true
			}
		}
	}
	checkBlocks(s.Body.List)
	if bad || f.retWrap != "" {
		return ind + f.fail(s, "range body form")
	}
	sort.Slice(carriedOrder, func(i, j int) bool { return carriedOrder[i].Pos() < carriedOrder[j].Pos() })
	var elemT string
	if pn := ptrStruct(f.typeOf(s.X).Underlying().(*types.Slice).Elem()); pn != nil && slicesOfRecords[pn.Obj().Name()] {
		elemT = needStruct(pn)
	}
	et, ok := leanType(f.typeOf(s.X).Underlying().(*types.Slice).Elem(), f.spec.Exact)
	if elemT != "" {
		et, ok = elemT, true
	}
	if !ok {
		return ind + f.fail(s, "range element type")
	}
	keyName, valName := "i_", "x_"
	if id, ok := s.Key.(*ast.Ident); ok && id.Name != "_" {
		keyName = ident(id.Name)
	}
	if s.Value != nil {
		if id, ok := s.Value.(*ast.Ident); ok && id.Name != "_" {
			valName = ident(id.Name)
		}
	}
	// free variables of the body: locals and objects of the enclosing function
	declared := map[types.Object]bool{}
	for _, e := range []ast.Expr{s.Key, s.Value} {
		if id, ok := e.(*ast.Ident); ok {
			if o := f.l.info.Defs[id]; o != nil {
				declared[o] = true
			}
		}
	}
	var freeOrder []types.Object
	free := map[types.Object]bool{}
	ast.Inspect(s.Body, func(n ast.Node) bool {
		if id, ok := n.(*ast.Ident); ok {
			if o, ok := f.l.info.Uses[id].(*types.Var); ok && !o.IsField() && !declared[o] && !free[o] && !carried[o] && o.Pkg() != nil && o.Parent() != o.Pkg().Scope() &&
				!(o.Pos() >= s.Body.Pos() && o.Pos() < s.Body.End()) {
				free[o] = true
				freeOrder = append(freeOrder, o)
			}
		}
		return true
	})
	sort.Slice(freeOrder, func(i, j int) bool { return freeOrder[i].Pos() < freeOrder[j].Pos() })
	var fargs, fnames []string
	isStateObj := func(o types.Object) (stateVar, bool) {
		for _, sv := range f.stateVar {
			if sv.obj == o {
				return sv, true
			}
		}
		return stateVar{}, false
	}
	for _, sv := range f.stateVar { // the objects are part of every result
		fargs = append(fargs, "("+ident(sv.name)+" : "+sv.lean+")")
		fnames = append(fnames, ident(sv.name))
	}
	localType := func(o types.Object) (string, bool) {
		if f.optLocals[o] {
			return "(Option " + needStruct(ptrStruct(o.Type())) + ")", true
		}
		return leanType(o.Type(), f.spec.Exact)
	}
	for _, o := range freeOrder {
		if _, ok := isStateObj(o); ok {
			continue
		}
		lt, ok := localType(o)
		if !ok {
			return ind + f.fail(s, "range body uses %s", o.Name())
		}
		fargs = append(fargs, "("+ident(o.Name())+" : "+lt+")")
		fnames = append(fnames, ident(o.Name()))
	}
	var cnames, ctypes []string
	for _, o := range carriedOrder {
		lt, ok := localType(o)
		if !ok {
			return ind + f.fail(s, "range body assigns %s", o.Name())
		}
		cnames = append(cnames, ident(o.Name()))
		ctypes = append(ctypes, lt)
	}
	ctup, ctyp := "("+strings.Join(cnames, ", ")+")", "("+strings.Join(ctypes, " × ")+")"
	if len(cnames) == 1 {
		ctup, ctyp = cnames[0], ctypes[0]
	}
	// does the body update a tracked object? (a dry run decides; then the objects travel too)
	{
		saveN, saveAux, saveProb, saveFailed, saveMut, saveNow := f.loopN, len(f.aux), len(problems), f.failed, f.mutates, f.usesNow
		f.mutates = false
		f.retWrap, f.contK = "some", func(ind string) string { return "" }
		f.block(s.Body.List, "", func(ind string) string { return "" })
		f.retWrap, f.contK = "", nil
		bodyMutates := f.mutates
		f.loopN, f.aux, problems, f.failed, f.mutates = saveN, f.aux[:saveAux], problems[:saveProb], saveFailed, saveMut
		_ = saveNow
		if bodyMutates {
			var keepArgs, keepNames []string
			for i, n := range fnames {
				isObj := false
				for _, sv := range f.stateVar {
					if ident(sv.name) == n {
						isObj = true
					}
				}
				if !isObj {
					keepArgs = append(keepArgs, fargs[i])
					keepNames = append(keepNames, n)
				}
			}
			fargs, fnames = keepArgs, keepNames
			var sn, stp []string
			for _, sv := range f.stateVar {
				sn = append(sn, ident(sv.name))
				stp = append(stp, sv.lean)
			}
			cnames = append(sn, cnames...)
			ctypes = append(stp, ctypes...)
			ctup, ctyp = "("+strings.Join(cnames, ", ")+")", "("+strings.Join(ctypes, " × ")+")"
			if len(cnames) == 1 {
				ctup, ctyp = cnames[0], ctypes[0]
			}
			f.mutates = true
		}
	}
	if f.usesPtrEq {
		has := false
		for _, n := range fnames {
			if n == "ptrEq" {
				has = true
			}
		}
		if !has {
			fargs = append([]string{"(ptrEq : " + f.ptrEqType + " → " + f.ptrEqType + " → Bool)"}, fargs...)
			fnames = append([]string{"ptrEq"}, fnames...)
		}
	}
	if f.usesNow {
		hasNow := false
		for _, n := range fnames {
			if n == "now" {
				hasNow = true
			}
		}
		if !hasNow {
			fargs = append(fargs, "(now : Int)")
			fnames = append(fnames, "now")
		}
	}
	f.loopN++
	name := fmt.Sprintf("%s_range%d", f.leanName, f.loopN)
	var rt []string
	for _, sv := range f.stateVar {
		rt = append(rt, sv.lean)
	}
	rt = append(rt, f.results...)
	ret := strings.Join(rt, " × ")
	if len(rt) == 0 {
		ret = "Unit"
	}
	call := strings.TrimSpace(name + " " + strings.Join(fnames, " "))
	var aux, out string
	if len(cnames) == 0 {
		next := func(ind string) string { return ind + call + " rest_ (" + keyName + " + 1)\n" }
		f.retWrap, f.contK = "some", next
		body := f.block(s.Body.List, "    ", next)
		f.retWrap, f.contK = "", nil
		aux = fmt.Sprintf("/-- the `range` loop of `%s` (line %d): `some r` = the body returned r, `none` = every element passed -/\ndef %s %s: List %s → Int → Option (%s)\n  | [], _ => none\n  | %s :: rest_, %s =>\n%s",
			f.spec.Name, fset.Position(s.Pos()).Line, name, strings.Join(append(fargs, ""), " "), et, ret, valName, keyName, body)
		out = ind + "match " + call + " " + f.expr(s.X) + " 0 with\n"
		out += ind + "| some r_ => r_\n"
		out += ind + "| none =>\n" + k(ind+"  ")
	} else {
		// the body also assigns locals of the function (or updates tracked objects): they travel through the recursion
		next := func(ind string) string { return ind + call + " rest_ (" + keyName + " + 1) " + ctup + "\n" }
		f.retWrap, f.contK = ".inl", next
		body := f.block(s.Body.List, "    ", next)
		f.retWrap, f.contK = "", nil
		aux = fmt.Sprintf("/-- the `range` loop of `%s` (line %d): `.inl r` = the body returned r, `.inr v` = every element passed and the variables it assigns ended as v -/\ndef %s %s: List %s → Int → %s → Sum (%s) %s\n  | [], _, %s => .inr %s\n  | %s :: rest_, %s, %s =>\n%s",
			f.spec.Name, fset.Position(s.Pos()).Line, name, strings.Join(append(fargs, ""), " "), et, ctyp, ret, ctyp, ctup, ctup, valName, keyName, ctup, body)
		out = ind + "match " + call + " " + f.expr(s.X) + " 0 " + ctup + " with\n"
		out += ind + "| .inl r_ => r_\n"
		out += ind + "| .inr " + ctup + " =>\n" + k(ind+"  ")
	}
	f.aux = append(f.aux, aux)
	return out
}

// onlyAssigns: a block of plain `local = expr` (or `local.field = expr`) statements
func onlyAssigns(b *ast.BlockStmt) bool {
	if len(b.List) == 0 {
		return false
	}
	for _, st := range b.List {
		as, ok := st.(*ast.AssignStmt)
		if !ok || as.Tok != token.ASSIGN || len(as.Lhs) != 1 || len(as.Rhs) != 1 {
			return false
		}
		switch l := as.Lhs[0].(type) {
		case *ast.Ident:
		case *ast.SelectorExpr:
			if _, ok := l.X.(*ast.Ident); !ok {
				return false
			}
		default:
			return false
		}
	}
	return true
}

func hasFor(b *ast.BlockStmt) bool {
	found := false
	ast.Inspect(b, func(n ast.Node) bool {
		if _, ok := n.(*ast.ForStmt); ok {
			found = true
		}
		return true
	})
	return found
}

// fuelledCallee: a call of a translated package-level function that contains a `for` loop (its Lean form takes fuel and
// may answer `none`)
func (f *fn) fuelledCallee(c *ast.CallExpr) *fn {
	id, ok := c.Fun.(*ast.Ident)
	if !ok {
		return nil
	}
	if o, ok := f.l.info.Uses[id].(*types.Func); ok {
		if g := translated[o]; g != nil && g.hasLoop && len(g.stateVar) == 0 && len(g.results) == 1 {
			return g
		}
	}
	return nil
}

func (f *fn) callsFuelled(b *ast.BlockStmt) bool {
	found := false
	ast.Inspect(b, func(n ast.Node) bool {
		if c, ok := n.(*ast.CallExpr); ok && f.fuelledCallee(c) != nil {
			found = true
		}
		return true
	})
	return found
}

// between the exact machine integers of one function and the unbounded ones of another
func crossConvert(x, from, to string) (string, bool) {
	if from == to {
		return x, true
	}
	switch from + ">" + to {
	case "Nat>UInt64":
		return "(UInt64.ofNat " + x + ")", true
	case "Nat>UInt32":
		return "(UInt32.ofNat " + x + ")", true
	case "Int>Int32":
		return "(Int32.ofInt " + x + ")", true
	case "Int>Int64":
		return "(Int64.ofInt " + x + ")", true
	case "Int32>Int":
		return "(Int32.toInt " + x + ")", true
	case "Int64>Int":
		return "(Int64.toInt " + x + ")", true
	case "UInt64>Nat":
		return "(UInt64.toNat " + x + ")", true
	case "UInt32>Nat":
		return "(UInt32.toNat " + x + ")", true
	}
	return "", false
}

func (f *fn) translate() string {
	info := f.l.info
	d := f.decl
	f.hasLoop = hasFor(d.Body) || f.callsFuelled(d.Body)
	// slices are translated as values. That is only right while no two slices that share an array are both
	// written: `x := obj.f[:k]` followed by `append(x, ..)` writes into obj.f's array behind its back.
	shares := map[types.Object]bool{}
	ast.Inspect(d.Body, func(n ast.Node) bool {
		switch v := n.(type) {
		case *ast.AssignStmt:
			for i, r := range v.Rhs {
				if se, ok := r.(*ast.SliceExpr); ok && i < len(v.Lhs) {
					if _, isSel := se.X.(*ast.SelectorExpr); isSel {
						if id, isId := v.Lhs[i].(*ast.Ident); isId {
							if o := info.ObjectOf(id); o != nil {
								shares[o] = true
							}
						}
					}
				}
			}
		case *ast.CallExpr:
			if id, ok := v.Fun.(*ast.Ident); ok && id.Name == "append" && len(v.Args) > 0 {
				if a, isId := v.Args[0].(*ast.Ident); isId && shares[info.ObjectOf(a)] {
					f.fail(v, "append to %s, which shares its array with a field (slices are translated as values)", a.Name)
				}
			}
		}
		return true
	})
	// receiver and parameters
	addObj := func(id *ast.Ident) {
		o := info.Defs[id]
		if o == nil {
			return
		}
		if f.spec.View[id.Name] {
			if f.views == nil {
				f.views = map[types.Object]string{}
			}
			f.views[o] = id.Name
			return
		}
		if p, ok := o.Type().(*types.Pointer); ok {
			if n := namedOf(p); n != nil {
				if _, ok := n.Underlying().(*types.Struct); ok {
					if ptrStruct(o.Type()) == nil {
						// an object of another package the body never mentions plays no part
						used := false
						ast.Inspect(d.Body, func(x ast.Node) bool {
							if u, ok := x.(*ast.Ident); ok && info.Uses[u] == o {
								used = true
							}
							return !used
						})
						if !used {
							return
						}
					}
					f.stateVar = append(f.stateVar, stateVar{id.Name, o, needStruct(n), n})
					return
				}
			}
		}
		lt, ok := leanType(o.Type(), f.spec.Exact)
		if !ok {
			f.fail(id, "parameter %s has no Lean type", id.Name)
			return
		}
		f.params = append(f.params, param{id.Name, o, lt})
	}
	if d.Recv != nil {
		for _, fld := range d.Recv.List {
			for _, n := range fld.Names {
				addObj(n)
			}
		}
	}
	if d.Type.Params != nil {
		for _, fld := range d.Type.Params.List {
			for _, n := range fld.Names {
				addObj(n)
			}
		}
	}
	// obj, exists := m[k] with m a map of pointers to records: obj is handed in by the caller
	ast.Inspect(d.Body, func(n ast.Node) bool {
		as, ok := n.(*ast.AssignStmt)
		if !ok || len(as.Lhs) != 2 || len(as.Rhs) != 1 || as.Tok != token.DEFINE {
			return true
		}
		ix, ok := as.Rhs[0].(*ast.IndexExpr)
		if !ok {
			return true
		}
		mt, ok := info.Types[ix.X].Type.Underlying().(*types.Map)
		if !ok {
			return true
		}
		pn := ptrStruct(mt.Elem())
		if pn == nil {
			return true
		}
		oid, eid := as.Lhs[0].(*ast.Ident), as.Lhs[1].(*ast.Ident)
		if o := info.Defs[oid]; o != nil {
			f.stateVar = append(f.stateVar, stateVar{oid.Name, o, needStruct(pn), pn})
		}
		if o := info.Defs[eid]; o != nil {
			f.params = append(f.params, param{eid.Name, o, "Bool"})
		}
		return true
	})
	// objects handed in by the caller (results of extern methods)
	var unusedParams = map[string]bool{}
	ast.Inspect(d.Body, func(n ast.Node) bool {
		as, ok := n.(*ast.AssignStmt)
		if !ok || len(as.Lhs) != 1 || len(as.Rhs) != 1 {
			return true
		}
		c, ok := as.Rhs[0].(*ast.CallExpr)
		if !ok {
			return true
		}
		sel, ok := c.Fun.(*ast.SelectorExpr)
		if !ok || !f.spec.Extern[sel.Sel.Name] {
			return true
		}
		id := as.Lhs[0].(*ast.Ident)
		o := info.Defs[id]
		if n := namedOf(o.Type()); n != nil {
			f.stateVar = append(f.stateVar, stateVar{id.Name, o, needStruct(n), n})
		}
		for _, a := range c.Args {
			if aid, ok := a.(*ast.Ident); ok {
				unusedParams[aid.Name] = true // only identifies the object
			}
		}
		return true
	})
	if d.Type.Results != nil {
		for _, fld := range d.Type.Results.List {
			n := len(fld.Names)
			if n == 0 {
				n = 1
			}
			for i := 0; i < n; i++ {
				if pn := ptrStruct(info.Types[fld.Type].Type); pn != nil {
					f.results = append(f.results, "(Option "+needStruct(pn)+")")
					f.resultOpt = append(f.resultOpt, true)
					continue
				}
				lt, ok := leanType(info.Types[fld.Type].Type, f.spec.Exact)
				if !ok {
					f.fail(fld, "result type")
				}
				f.results = append(f.results, lt)
				f.resultOpt = append(f.resultOpt, false)
			}
		}
	}
	body := f.block(d.Body.List, "  ", func(ind string) string { return ind + f.retTuple(nil) + "\n" })
	var sig []string
	if f.hasLoop {
		sig = append(sig, "(fuel : Nat)")
	}
	if f.usesPtrEq {
		sig = append(sig, "(ptrEq : "+f.ptrEqType+" → "+f.ptrEqType+" → Bool)")
	}
	for _, s := range f.stateVar {
		sig = append(sig, "("+ident(s.name)+" : "+s.lean+")")
	}
	for _, p := range f.params {
		if unusedParams[p.name] {
			continue
		}
		sig = append(sig, "("+ident(p.name)+" : "+p.lean+")")
	}
	for _, p := range f.viewPars {
		sig = append(sig, "("+ident(p.name)+" : "+p.lean+")")
	}
	if f.usesNow {
		sig = append(sig, "(now : Int)")
	}
	var rt []string
	for _, s := range f.stateVar {
		rt = append(rt, s.lean)
	}
	rt = append(rt, f.results...)
	ret := strings.Join(rt, " × ")
	if len(rt) == 0 {
		ret = "Unit"
	}
	if f.hasLoop {
		ret = "Option (" + ret + ")"
	}
	pos := fset.Position(d.Pos())
	out := strings.Join(f.aux, "\n")
	if out != "" {
		out += "\n"
	}
	out += fmt.Sprintf("/-- `%s` — %s:%d -/\ndef %s %s : %s :=\n%s", f.spec.Name, strings.TrimPrefix(pos.Filename, rootDir+"/"), pos.Line, f.leanName, strings.Join(sig, " "), ret, body)
	return out
}

var rootDir = "/repo"

func main() {
	root := "/repo"
	if len(os.Args) > 1 {
		root = os.Args[1]
	}
	rootDir = strings.TrimRight(root, "/")
	if err := os.Chdir(root); err != nil {
		fmt.Fprintln(os.Stderr, err)
		os.Exit(2)
	}
	imp := importer.ForCompiler(fset, "source", nil)
	pkgs := map[string]*loaded{}
	var defs []string
	var okFuncs []string
	for _, sp := range specs {
		l := pkgs[sp.Pkg]
		if l == nil {
			l = load(root, sp.Pkg, imp)
			pkgs[sp.Pkg] = l
		}
		if l == nil {
			problems = append(problems, sp.Name+"\x00"+fmt.Sprintf("package %s did not load", sp.Pkg))
			continue
		}
		var decl *ast.FuncDecl
		for _, file := range l.files {
			for _, d := range file.Decls {
				fd, ok := d.(*ast.FuncDecl)
				if !ok || fd.Name.Name != sp.Name || fd.Body == nil {
					continue
				}
				recv := ""
				if fd.Recv != nil && len(fd.Recv.List) == 1 {
					if n := namedOf(l.info.Types[fd.Recv.List[0].Type].Type); n != nil {
						recv = n.Obj().Name()
					}
				}
				if recv == sp.Recv {
					decl = fd
				}
			}
		}
		if decl == nil {
			problems = append(problems, sp.Name+"\x00"+fmt.Sprintf("function %s.%s not found in %s", sp.Recv, sp.Name, sp.Pkg))
			continue
		}
		obj, _ := l.info.Defs[decl.Name].(*types.Func)
		f := &fn{spec: sp, l: l, decl: decl, obj: obj, leanName: ident(sp.Name)}
		if sp.LeanName != "" {
			f.leanName = sp.LeanName
		}
		byteStr = sp.ByteStr
		text := f.translate()
		byteStr = false
		if f.failed {
			continue
		}
		translated[obj] = f
		defs = append(defs, text)
		okFuncs = append(okFuncs, fmt.Sprintf("%q", f.leanName))
	}
	var b strings.Builder
	b.WriteString("-- GENERATED by /verif/go/trans from the current /repo source. Do not edit.\n")
	b.WriteString("import Helios.Model.Addr\nimport Helios.Model.Hash\nimport Helios.Model.Admin\n")
	b.WriteString("-- (the imports are the models of the standard-library functions and types the translated code uses: net.SplitHostPort,\n-- strings.TrimSpace, hash/fnv's New32a, net.IP / net.IPNet with Contains; nothing else of the hand-written model is used here)\n")
	b.WriteString("namespace Helios.Generated.Code\nopen Helios (Bytes)\n\n")
	b.WriteString("/-- `strings.Index(s, c)` for a one-byte `c`: the position of the first `c`, -1 when there is none -/\ndef strIndexByte (s : Bytes) (c : UInt8) : Int :=\n  match Helios.Bytes.indexOf c s with\n  | some i => Int.ofNat i\n  | none => -1\n\n")
	b.WriteString("/-- `(*net.IPNet).Contains(ip)`; a nil address is in no network -/\ndef netContains (n : Helios.Admin.Net) (ip : Option Helios.Admin.IP) : Bool :=\n  match ip with\n  | some a => n.contains a\n  | none => false\n\n")
	b.WriteString("/-- `strings.Split(s, c)[0]` for a one-byte `c` -/\ndef strSplitFirst (s : Bytes) (c : UInt8) : Bytes :=\n  match Helios.Bytes.indexOf c s with\n  | some i => s.take i\n  | none => s\n\n")
	b.WriteString("/-- `strings.HasPrefix` -/\ndef strHasPrefix (s p : String) : Bool := p.toList.isPrefixOf s.toList\n\n")
	b.WriteString("/-- `xs[i]` on a slice read as a list (Go panics when `i` is out of range: the theorems establish `i < xs.length` where it matters) -/\ndef listGet {α : Type} [Inhabited α] (xs : List α) (i : Nat) : α := (xs[i]?).getD default\n\n")
	b.WriteString("/-- `m[k] = v` on a Go map read as a total function -/\ndef mapSet {α : Type} (m : String → α) (k : String) (v : α) : String → α :=\n  fun k' => if k' = k then v else m k'\n\n")
	// resolve nested records first (the list grows while it is walked), then emit them before
	// the structures that contain them
	for i := 0; i < len(structOrder); i++ {
		st := structsNeeded[structOrder[i]].Underlying().(*types.Struct)
		for j := 0; j < st.NumFields(); j++ {
			fieldType(st.Field(j), false)
		}
	}
	emitted := map[string]bool{}
	var emit func(name string)
	emit = func(name string) {
		if emitted[name] {
			return
		}
		emitted[name] = true
		n := structsNeeded[name]
		st := n.Underlying().(*types.Struct)
		var lines []string
		for i := 0; i < st.NumFields(); i++ {
			fl := st.Field(i)
			if lt, ok := fieldType(fl, false); ok {
				for _, word := range strings.FieldsFunc(lt, func(r rune) bool { return r == '(' || r == ')' || r == ' ' || r == '×' || r == '→' }) {
					if _, isStruct := structsNeeded[word]; isStruct && word != name {
						emit(word)
					}
				}
				lines = append(lines, fmt.Sprintf("  %s : %s\n", ident(fl.Name()), lt))
			}
		}
		if structsWithBuilt[name] {
			lines = append(lines, "  built : List (String × List Int)   -- components constructed: constructor and its numeric arguments, in order\n")
		}
		if structsWithClosed[name] {
			lines = append(lines, "  closedConns : List Nat   -- connections closed (Close() called), in order\n")
		}
		if structsWithOut[name] {
			lines = append(lines, "  out : List (String × Int)   -- calls handed on to the wrapped ResponseWriter, in order\n")
		}
		if structsWithFlusher[name] {
			lines = append(lines, "  rwFlusher : Bool   -- the wrapped ResponseWriter implements http.Flusher\n")
		}
		if structsWithFx[name] {
			lines = append(lines, "  fx : List (String × Bool)   -- reports made to the metrics collector, in order\n")
		}
		deriving := "  deriving Repr\n"
		if strings.Contains(strings.Join(lines, ""), "→") {
			deriving = ""
		}
		inhabited := "\ninstance : Inhabited " + name + " := ⟨by constructor <;> exact default⟩\n"
		for _, l := range lines {
			f := strings.Fields(l)
			if _, nested := structsNeeded[f[len(f)-1]]; nested && noRepr[f[len(f)-1]] {
				deriving = ""
			}
		}
		if deriving == "" {
			noRepr[name] = true
		}
		fmt.Fprintf(&b, "/-- `%s.%s` (fields with a Lean representation) -/\nstructure %s where\n%s%s%s\n",
			strings.TrimPrefix(n.Obj().Pkg().Path(), modPath), n.Obj().Name(), name, strings.Join(lines, ""), deriving, inhabited)
	}
	for _, name := range structOrder {
		emit(name)
	}
	for _, d := range defs {
		b.WriteString(d)
		b.WriteString("\n")
	}
	sort.Strings(problems)
	var ps []string
	for _, p := range problems {
		fn, msg := "(translator)", p
		if i := strings.Index(p, "\x00"); i >= 0 {
			fn, msg = p[:i], p[i+1:]
		}
		ps = append(ps, fmt.Sprintf("(%q, %q)", fn, msg))
	}
	fmt.Fprintf(&b, "def translated : List String := [%s]\n\n", strings.Join(okFuncs, ", "))
	fmt.Fprintf(&b, "/-- (function, what could not be translated) -/\ndef translationProblems : List (String × String) := [%s]\n\nend Helios.Generated.Code\n", strings.Join(ps, ",\n  "))
	fmt.Print(b.String())
}
