module verif/extract

go 1.20
