// Command extract re-derives, from the Go source of Helios as it is now, the structural
// facts the Lean theorems depend on, and prints them as a Lean module (Helios/Generated/Facts.lean)
// plus a JSON copy. Standard library only (go/parser, go/ast).
package main

import (
	"encoding/json"
	"fmt"
	"go/ast"
	"go/parser"
	"go/token"
	"os"
	"path/filepath"
	"sort"
	"strconv"
	"strings"
)

type wrapper struct {
	Name                 string
	Flush, Hijack, Unwrap bool
}

type facts struct {
	Wrappers        []wrapper
	RetryBudget     int
	RLCutoffNs      int64
	JumpMul         string
	Strategies      []string // validator
	SetStrategies   []string // SetStrategy switch
	CreateStrategies []string // createStrategy switch
	Routes          [][2]string // path, "auth"|"open"
	LogLevels       []string
	LogFormats      []string
	Plugins         []string
	IPFilterUsesHeaders bool
	IPFilterFailOpen    bool
	StopSequence        []string
	WgAddFuncs          []string
	FanoutCallers       []string
	ProbeChecksCtxFirst bool
	ProbeBoundToCtx     bool
	GracefulSequence    []string
	GracefulStopAlways  bool     // shutdownGracefully: lb.Stop() is a top-level statement and no return precedes it
	SignalsStayRegistered bool   // cmd/helios: signal.Notify for SIGINT/SIGTERM and nothing ever un-registers (Stop / Reset / Ignore)
	ExecuteRecoverArm   bool     // Execute: `if r := recover(); r != nil { cb.afterRequest(generation, false); panic(r) }` and nothing else in the deferred function
	ProxyFlushImmediate bool     // AddBackend sets proxy.FlushInterval = -1
	TransportNoCompress bool     // the backend transport has DisableCompression: true
	LbWriterMethods     []string // methods responseWriter defines itself (everything else is the embedded writer's)
	LbWriterForwards    bool     // responseWriter.WriteHeader passes its argument on unchanged
	HandlerOrder        []string // buildHandler: inside-out composition
	TimeoutFields       [][3]string // function, "Type.Field", "ok" | "UNBOUNDED:<expr>"
	HandlerTimeoutApplied bool     // buildHandler wraps the chain with withHandlerTimeout(handler, <defaulted var>)
	Problems        []string
}

var fset = token.NewFileSet()

func parseDir(dir string) map[string]*ast.File {
	out := map[string]*ast.File{}
	ents, _ := os.ReadDir(dir)
	for _, e := range ents {
		n := e.Name()
		if e.IsDir() || !strings.HasSuffix(n, ".go") || strings.HasSuffix(n, "_test.go") {
			continue
		}
		f, err := parser.ParseFile(fset, filepath.Join(dir, n), nil, 0)
		if err == nil {
			out[n] = f
		}
	}
	return out
}

func recvName(fd *ast.FuncDecl) string {
	if fd.Recv == nil || len(fd.Recv.List) == 0 {
		return ""
	}
	t := fd.Recv.List[0].Type
	if s, ok := t.(*ast.StarExpr); ok {
		t = s.X
	}
	if id, ok := t.(*ast.Ident); ok {
		return id.Name
	}
	return ""
}

func isSel(e ast.Expr, pkg, name string) bool {
	s, ok := e.(*ast.SelectorExpr)
	if !ok {
		return false
	}
	id, ok := s.X.(*ast.Ident)
	return ok && id.Name == pkg && s.Sel.Name == name
}

func findFunc(files map[string]*ast.File, recv, name string) *ast.FuncDecl {
	for _, f := range files {
		for _, d := range f.Decls {
			if fd, ok := d.(*ast.FuncDecl); ok && fd.Name.Name == name && recvName(fd) == recv {
				return fd
			}
		}
	}
	return nil
}

func strLit(e ast.Expr) (string, bool) {
	if b, ok := e.(*ast.BasicLit); ok && b.Kind == token.STRING {
		s, err := strconv.Unquote(b.Value)
		return s, err == nil
	}
	return "", false
}

var durations = map[string]int64{"Nanosecond": 1, "Microsecond": 1e3, "Millisecond": 1e6, "Second": 1e9, "Minute": 60e9, "Hour": 3600e9}

// evalDur evaluates simple duration expressions: time.X, N*time.X, time.X*N, -expr
func evalDur(e ast.Expr) (int64, bool) {
	switch x := e.(type) {
	case *ast.ParenExpr:
		return evalDur(x.X)
	case *ast.UnaryExpr:
		if x.Op == token.SUB {
			v, ok := evalDur(x.X)
			return -v, ok
		}
	case *ast.SelectorExpr:
		if id, ok := x.X.(*ast.Ident); ok && id.Name == "time" {
			v, ok := durations[x.Sel.Name]
			return v, ok
		}
	case *ast.BasicLit:
		if x.Kind == token.INT {
			v, err := strconv.ParseInt(x.Value, 0, 64)
			return v, err == nil
		}
	case *ast.BinaryExpr:
		if x.Op == token.MUL {
			a, ok1 := evalDur(x.X)
			b, ok2 := evalDur(x.Y)
			return a * b, ok1 && ok2
		}
	}
	return 0, false
}

func caseStrings(fd *ast.FuncDecl) []string {
	var out []string
	if fd == nil {
		return out
	}
	ast.Inspect(fd, func(n ast.Node) bool {
		if cc, ok := n.(*ast.CaseClause); ok {
			for _, e := range cc.List {
				if s, ok := strLit(e); ok {
					out = append(out, s)
				}
			}
		}
		return true
	})
	return out
}

func mapKeys(fd *ast.FuncDecl, varName string) []string {
	var out []string
	if fd == nil {
		return out
	}
	ast.Inspect(fd, func(n ast.Node) bool {
		as, ok := n.(*ast.AssignStmt)
		if !ok || len(as.Lhs) != 1 || len(as.Rhs) != 1 {
			return true
		}
		id, ok := as.Lhs[0].(*ast.Ident)
		if !ok || id.Name != varName {
			return true
		}
		if cl, ok := as.Rhs[0].(*ast.CompositeLit); ok {
			for _, el := range cl.Elts {
				if kv, ok := el.(*ast.KeyValueExpr); ok {
					if s, ok := strLit(kv.Key); ok {
						out = append(out, s)
					}
				}
			}
		}
		return true
	})
	return out
}

func main() {
	repo := "/repo"
	if len(os.Args) > 1 {
		repo = os.Args[1]
	}
	var f facts
	problem := func(format string, a ...interface{}) { f.Problems = append(f.Problems, fmt.Sprintf(format, a...)) }

	lb := parseDir(filepath.Join(repo, "internal/loadbalancer"))
	pl := parseDir(filepath.Join(repo, "internal/plugins"))
	rl := parseDir(filepath.Join(repo, "internal/ratelimiter"))
	cfg := parseDir(filepath.Join(repo, "internal/config"))
	adm := parseDir(filepath.Join(repo, "internal/adminapi"))

	// ResponseWriter wrappers: structs embedding http.ResponseWriter, and their method sets
	for pkg, files := range map[string]map[string]*ast.File{"loadbalancer": lb, "plugins": pl,
		"logging": parseDir(filepath.Join(repo, "internal/logging")), "adminapi": adm,
		"metrics": parseDir(filepath.Join(repo, "internal/metrics")), "main": parseDir(filepath.Join(repo, "cmd/helios")),
		"utils": parseDir(filepath.Join(repo, "internal/utils")), "proxy": parseDir(filepath.Join(repo, "internal/proxy"))} {
		types := map[string]bool{}
		for _, file := range files {
			ast.Inspect(file, func(n ast.Node) bool {
				ts, ok := n.(*ast.TypeSpec)
				if !ok {
					return true
				}
				st, ok := ts.Type.(*ast.StructType)
				if !ok {
					return true
				}
				for _, fld := range st.Fields.List {
					if len(fld.Names) == 0 && isSel(fld.Type, "http", "ResponseWriter") {
						types[ts.Name.Name] = true
					}
				}
				return true
			})
		}
		for t := range types {
			w := wrapper{Name: pkg + "." + t}
			for _, file := range files {
				for _, d := range file.Decls {
					if fd, ok := d.(*ast.FuncDecl); ok && recvName(fd) == t {
						switch fd.Name.Name {
						case "Flush":
							w.Flush = true
						case "Hijack":
							w.Hijack = true
						case "Unwrap":
							w.Unwrap = true
						}
					}
				}
			}
			f.Wrappers = append(f.Wrappers, w)
		}
	}
	sort.Slice(f.Wrappers, func(i, j int) bool { return f.Wrappers[i].Name < f.Wrappers[j].Name })

	// retry budget of findHealthyBackend: the bound of its for loop
	f.RetryBudget = -1
	if fd := findFunc(lb, "LoadBalancer", "findHealthyBackend"); fd != nil {
		ast.Inspect(fd, func(n ast.Node) bool {
			if fs, ok := n.(*ast.ForStmt); ok {
				if be, ok := fs.Cond.(*ast.BinaryExpr); ok && be.Op == token.LSS {
					if lit, ok := be.Y.(*ast.BasicLit); ok {
						f.RetryBudget, _ = strconv.Atoi(lit.Value)
					}
				}
			}
			return true
		})
	}
	if f.RetryBudget < 0 {
		problem("findHealthyBackend retry loop not found")
	}

	// rate limiter cleanup cutoff: argument of now.Add(...) in cleanup
	f.RLCutoffNs = -1
	if fd := findFunc(rl, "TokenBucketRateLimiter", "cleanup"); fd != nil {
		ast.Inspect(fd, func(n ast.Node) bool {
			if ce, ok := n.(*ast.CallExpr); ok {
				if se, ok := ce.Fun.(*ast.SelectorExpr); ok && se.Sel.Name == "Add" && len(ce.Args) == 1 {
					if v, ok := evalDur(ce.Args[0]); ok && v < 0 && f.RLCutoffNs < 0 {
						f.RLCutoffNs = -v
					}
				}
			}
			return true
		})
	}
	if f.RLCutoffNs < 0 {
		problem("rate limiter cleanup cutoff not found")
	}

	// jump hash multiplier: the integer literal multiplied with key in jumpHash
	if fd := findFunc(lb, "", "jumpHash"); fd != nil {
		ast.Inspect(fd, func(n ast.Node) bool {
			if be, ok := n.(*ast.BinaryExpr); ok && be.Op == token.MUL {
				if id, ok := be.X.(*ast.Ident); ok && id.Name == "key" {
					if lit, ok := be.Y.(*ast.BasicLit); ok {
						f.JumpMul = lit.Value
					}
				}
			}
			return true
		})
	}
	if f.JumpMul == "" {
		problem("jumpHash multiplier not found")
		f.JumpMul = "0"
	}

	f.Strategies = mapKeys(findFunc(cfg, "Config", "validateLoadBalancer"), "validStrategies")
	f.SetStrategies = caseStrings(findFunc(lb, "LoadBalancer", "SetStrategy"))
	f.CreateStrategies = caseStrings(findFunc(lb, "", "createStrategy"))
	f.LogLevels = mapKeys(findFunc(cfg, "Config", "validateLogging"), "validLogLevels")
	f.LogFormats = mapKeys(findFunc(cfg, "Config", "validateLogging"), "validLogFormats")
	sort.Strings(f.Strategies)
	sort.Strings(f.SetStrategies)
	sort.Strings(f.CreateStrategies)
	sort.Strings(f.LogLevels)
	sort.Strings(f.LogFormats)

	// admin routes: mux.Handle / mux.HandleFunc in NewMux; wrapped in auth(...) or not
	if fd := findFunc(adm, "", "NewMux"); fd != nil {
		ast.Inspect(fd, func(n ast.Node) bool {
			ce, ok := n.(*ast.CallExpr)
			if !ok {
				return true
			}
			se, ok := ce.Fun.(*ast.SelectorExpr)
			if !ok || (se.Sel.Name != "Handle" && se.Sel.Name != "HandleFunc") || len(ce.Args) != 2 {
				return true
			}
			path, ok := strLit(ce.Args[0])
			if !ok {
				return true
			}
			kind := "open"
			if inner, ok := ce.Args[1].(*ast.CallExpr); ok {
				if id, ok := inner.Fun.(*ast.Ident); ok && id.Name == "auth" {
					kind = "auth"
				}
			}
			f.Routes = append(f.Routes, [2]string{path, kind})
			return true
		})
		// fail-open: does the error branch of NewIPFilter return the bare mux?
		ast.Inspect(fd, func(n ast.Node) bool {
			if is, ok := n.(*ast.IfStmt); ok {
				if be, ok := is.Cond.(*ast.BinaryExpr); ok && be.Op == token.NEQ {
					if id, ok := be.X.(*ast.Ident); ok && id.Name == "err" {
						for _, st := range is.Body.List {
							if rs, ok := st.(*ast.ReturnStmt); ok && len(rs.Results) == 1 {
								if id, ok := rs.Results[0].(*ast.Ident); ok && id.Name == "mux" {
									f.IPFilterFailOpen = true
								}
							}
						}
					}
				}
			}
			return true
		})
	} else {
		problem("adminapi.NewMux not found")
	}
	// does the IP filter middleware consult request headers (GetClientIP / Header.Get)?
	if fd := findFunc(adm, "IPFilter", "Middleware"); fd != nil {
		ast.Inspect(fd, func(n ast.Node) bool {
			if se, ok := n.(*ast.SelectorExpr); ok && (se.Sel.Name == "GetClientIP" || se.Sel.Name == "Header") {
				f.IPFilterUsesHeaders = true
			}
			return true
		})
	}

	// shutdown protocol (C19): order of the significant actions in Stop, who calls wg.Add,
	// who starts a fan-out, whether a probe looks at the context first
	selText := func(e ast.Expr) string {
		var parts []string
		for {
			se, ok := e.(*ast.SelectorExpr)
			if !ok {
				if id, ok := e.(*ast.Ident); ok {
					parts = append([]string{id.Name}, parts...)
				}
				break
			}
			parts = append([]string{se.Sel.Name}, parts...)
			e = se.X
		}
		return strings.Join(parts, ".")
	}
	if fd := findFunc(lb, "LoadBalancer", "Stop"); fd != nil {
		ast.Inspect(fd, func(n ast.Node) bool {
			switch x := n.(type) {
			case *ast.CallExpr:
				switch selText(x.Fun) {
				case "lb.cancel":
					f.StopSequence = append(f.StopSequence, "cancel")
				case "lb.healthCheckWg.Wait":
					f.StopSequence = append(f.StopSequence, "wgWait")
				case "lb.wsPool.Shutdown":
					f.StopSequence = append(f.StopSequence, "poolShutdown")
				}
			case *ast.UnaryExpr:
				if x.Op == token.ARROW && selText(x.X) == "lb.healthLoopDone" {
					f.StopSequence = append(f.StopSequence, "joinLoop")
				}
			}
			return true
		})
	} else {
		problem("LoadBalancer.Stop not found")
	}
	for _, file := range lb {
		for _, d := range file.Decls {
			fd, ok := d.(*ast.FuncDecl)
			if !ok {
				continue
			}
			ast.Inspect(fd, func(n ast.Node) bool {
				if ce, ok := n.(*ast.CallExpr); ok {
					switch selText(ce.Fun) {
					case "lb.healthCheckWg.Add":
						f.WgAddFuncs = append(f.WgAddFuncs, fd.Name.Name)
					case "lb.checkBackendsHealth":
						f.FanoutCallers = append(f.FanoutCallers, fd.Name.Name)
					}
				}
				return true
			})
		}
	}
	sort.Strings(f.WgAddFuncs)
	sort.Strings(f.FanoutCallers)
	dedup := func(l []string) []string {
		var out []string
		for i, x := range l {
			if i == 0 || x != l[i-1] {
				out = append(out, x)
			}
		}
		return out
	}
	f.WgAddFuncs, f.FanoutCallers = dedup(f.WgAddFuncs), dedup(f.FanoutCallers)
	if fd := findFunc(lb, "LoadBalancer", "checkBackendHealth"); fd != nil && len(fd.Body.List) > 0 {
		if ss, ok := fd.Body.List[0].(*ast.SelectStmt); ok {
			ast.Inspect(ss, func(n ast.Node) bool {
				if ce, ok := n.(*ast.CallExpr); ok && selText(ce.Fun) == "lb.ctx.Done" {
					f.ProbeChecksCtxFirst = true
				}
				return true
			})
		}
	}
	if fd := findFunc(lb, "LoadBalancer", "performHealthCheck"); fd != nil {
		ast.Inspect(fd, func(n ast.Node) bool {
			if ce, ok := n.(*ast.CallExpr); ok && selText(ce.Fun) == "http.NewRequestWithContext" && len(ce.Args) > 0 && selText(ce.Args[0]) == "lb.ctx" {
				f.ProbeBoundToCtx = true
			}
			return true
		})
	}
	mainPkg := parseDir(filepath.Join(repo, "cmd/helios"))
	if fd := findFunc(mainPkg, "", "shutdownGracefully"); fd != nil {
		// the balancer is stopped on every path: the call is a statement of the function body itself
		// and nothing returns (or exits) before it
		stopAt := -1
		for i, st := range fd.Body.List {
			if es, ok := st.(*ast.ExprStmt); ok {
				if ce, ok := es.X.(*ast.CallExpr); ok && selText(ce.Fun) == "lb.Stop" {
					stopAt = i
					break
				}
			}
		}
		early := false
		if stopAt >= 0 {
			for _, st := range fd.Body.List[:stopAt] {
				ast.Inspect(st, func(n ast.Node) bool {
					switch v := n.(type) {
					case *ast.FuncLit:
						return false
					case *ast.ReturnStmt:
						early = true
					case *ast.CallExpr:
						if t := selText(v.Fun); t == "os.Exit" || t == "panic" || strings.HasSuffix(t, ".Fatal") || strings.HasSuffix(t, ".Panic") {
							early = true
						}
					}
					return true
				})
			}
		}
		f.GracefulStopAlways = stopAt >= 0 && !early
		ast.Inspect(fd, func(n ast.Node) bool {
			if ce, ok := n.(*ast.CallExpr); ok {
				switch selText(ce.Fun) {
				case "server.Shutdown":
					f.GracefulSequence = append(f.GracefulSequence, "serverShutdown")
				case "lb.Stop":
					f.GracefulSequence = append(f.GracefulSequence, "lbStop")
				}
			}
			return true
		})
	}

	// C19: the stop signals stay registered for the life of the process (a repeated signal is absorbed)
	{
		notify, unreg := false, false
		for _, file := range mainPkg {
			ast.Inspect(file, func(n ast.Node) bool {
				if ce, ok := n.(*ast.CallExpr); ok {
					switch selText(ce.Fun) {
					case "signal.Notify":
						notify = true
					case "signal.Stop", "signal.Reset", "signal.Ignore":
						unreg = true
					}
				}
				return true
			})
		}
		f.SignalsStayRegistered = notify && !unreg
	}
	// C07 / C13 / C01: a panic inside the protected call is a failure of that call, recorded, and goes on as a panic
	if fd := findFunc(parseDir(filepath.Join(repo, "internal/circuitbreaker")), "CircuitBreaker", "Execute"); fd != nil {
		ok := false
		ndefer := 0
		for _, st := range fd.Body.List {
			ds, isDefer := st.(*ast.DeferStmt)
			if !isDefer {
				continue
			}
			ndefer++
			fl, isLit := ds.Call.Fun.(*ast.FuncLit)
			if !isLit || len(fl.Body.List) != 1 {
				continue
			}
			ifs, isIf := fl.Body.List[0].(*ast.IfStmt)
			if !isIf || ifs.Else != nil || ifs.Init == nil || len(ifs.Body.List) != 2 {
				continue
			}
			// r := recover(); r != nil
			as, isAs := ifs.Init.(*ast.AssignStmt)
			if !isAs || len(as.Rhs) != 1 || selText(as.Rhs[0].(*ast.CallExpr).Fun) != "recover" {
				continue
			}
			be, isBin := ifs.Cond.(*ast.BinaryExpr)
			if !isBin || be.Op != token.NEQ {
				continue
			}
			if id, isId := be.Y.(*ast.Ident); !isId || id.Name != "nil" {
				continue
			}
			es, isEs := ifs.Body.List[0].(*ast.ExprStmt)
			if !isEs {
				continue
			}
			c1, isCall := es.X.(*ast.CallExpr)
			if !isCall || !strings.HasSuffix(selText(c1.Fun), ".afterRequest") || len(c1.Args) != 2 {
				continue
			}
			if id, isId := c1.Args[1].(*ast.Ident); !isId || id.Name != "false" {
				continue
			}
			es2, isEs2 := ifs.Body.List[1].(*ast.ExprStmt)
			if !isEs2 {
				continue
			}
			c2, isCall2 := es2.X.(*ast.CallExpr)
			if !isCall2 || selText(c2.Fun) != "panic" || len(c2.Args) != 1 {
				continue
			}
			ok = true
		}
		f.ExecuteRecoverArm = ok && ndefer == 1
	}

	// C01: ReverseProxy / transport settings and the balancer's own writer
	if ab := findFunc(lb, "LoadBalancer", "AddBackend"); ab != nil {
		ast.Inspect(ab, func(n ast.Node) bool {
			switch v := n.(type) {
			case *ast.AssignStmt:
				if len(v.Lhs) == 1 && len(v.Rhs) == 1 {
					if sel, ok := v.Lhs[0].(*ast.SelectorExpr); ok && sel.Sel.Name == "FlushInterval" {
						if u, ok := v.Rhs[0].(*ast.UnaryExpr); ok && u.Op == token.SUB {
							if bl, ok := u.X.(*ast.BasicLit); ok && bl.Value == "1" {
								f.ProxyFlushImmediate = true
							}
						}
					}
				}
			case *ast.KeyValueExpr:
				if id, ok := v.Key.(*ast.Ident); ok && id.Name == "DisableCompression" {
					if val, ok := v.Value.(*ast.Ident); ok && val.Name == "true" {
						f.TransportNoCompress = true
					}
				}
			}
			return true
		})
	} else {
		f.Problems = append(f.Problems, "LoadBalancer.AddBackend not found")
	}
	for _, file := range lb {
		for _, d := range file.Decls {
			if fd, ok := d.(*ast.FuncDecl); ok && recvName(fd) == "responseWriter" {
				f.LbWriterMethods = append(f.LbWriterMethods, fd.Name.Name)
				if fd.Name.Name == "WriteHeader" && fd.Type.Params != nil && len(fd.Type.Params.List) == 1 && len(fd.Type.Params.List[0].Names) == 1 {
					param := fd.Type.Params.List[0].Names[0].Name
					calls := 0
					ast.Inspect(fd.Body, func(n ast.Node) bool {
						if ce, ok := n.(*ast.CallExpr); ok {
							if sel, ok := ce.Fun.(*ast.SelectorExpr); ok && sel.Sel.Name == "WriteHeader" {
								calls++
								if len(ce.Args) == 1 {
									if id, ok := ce.Args[0].(*ast.Ident); ok && id.Name == param {
										f.LbWriterForwards = true
										return true
									}
								}
								f.LbWriterForwards = false
								calls += 100
							}
						}
						// the parameter must not be reassigned
						if as, ok := n.(*ast.AssignStmt); ok {
							for _, l := range as.Lhs {
								if id, ok := l.(*ast.Ident); ok && id.Name == param {
									calls += 100
								}
							}
						}
						return true
					})
					if calls != 1 {
						f.LbWriterForwards = false
					}
				}
			}
		}
	}
	sort.Strings(f.LbWriterMethods)
	// buildHandler composition, inside out
	{
		mp := parseDir(filepath.Join(repo, "cmd/helios"))
		if bh := findFunc(mp, "", "buildHandler"); bh != nil {
			ast.Inspect(bh, func(n ast.Node) bool {
				if as, ok := n.(*ast.AssignStmt); ok && len(as.Rhs) == 1 {
					switch r := as.Rhs[0].(type) {
					case *ast.Ident:
						if r.Name == "lb" {
							f.HandlerOrder = append(f.HandlerOrder, "lb")
						}
					case *ast.CallExpr:
						txt := ""
						if sel, ok := r.Fun.(*ast.SelectorExpr); ok {
							txt = sel.Sel.Name
						} else if inner, ok := r.Fun.(*ast.CallExpr); ok {
							if sel, ok := inner.Fun.(*ast.SelectorExpr); ok {
								txt = sel.Sel.Name
							}
						}
						if id, ok := r.Fun.(*ast.Ident); ok {
							txt = id.Name
						}
						if txt == "BuildChain" || txt == "RequestContextMiddleware" || txt == "withHandlerTimeout" {
							f.HandlerOrder = append(f.HandlerOrder, txt)
						}
					}
				}
				if vs, ok := n.(*ast.ValueSpec); ok && len(vs.Values) == 1 {
					if id, ok := vs.Values[0].(*ast.Ident); ok && id.Name == "lb" {
						f.HandlerOrder = append(f.HandlerOrder, "lb")
					}
				}
				return true
			})
		} else {
			f.Problems = append(f.Problems, "buildHandler not found")
		}
	}

	// C03: every timeout of the backend transport, its dialer and the front server is set to a
	// value that cannot be zero: a variable guarded by `if v == 0 { v = <default> }` or a constant
	{
		mp := parseDir(filepath.Join(repo, "cmd/helios"))
		check := func(fn string, fd *ast.FuncDecl) map[string]bool {
			defaulted := map[string]bool{}
			if fd == nil {
				f.Problems = append(f.Problems, fn+" not found")
				return defaulted
			}
			ast.Inspect(fd, func(n ast.Node) bool {
				ifs, ok := n.(*ast.IfStmt)
				if !ok {
					return true
				}
				be, ok := ifs.Cond.(*ast.BinaryExpr)
				if !ok || be.Op != token.EQL {
					return true
				}
				id, ok1 := be.X.(*ast.Ident)
				lit, ok2 := be.Y.(*ast.BasicLit)
				if !ok1 || !ok2 || lit.Value != "0" {
					return true
				}
				for _, st := range ifs.Body.List {
					if as, ok := st.(*ast.AssignStmt); ok && len(as.Lhs) == 1 {
						if l, ok := as.Lhs[0].(*ast.Ident); ok && l.Name == id.Name {
							defaulted[id.Name] = true
						}
					}
				}
				return true
			})
			ast.Inspect(fd, func(n ast.Node) bool {
				cl, ok := n.(*ast.CompositeLit)
				if !ok {
					return true
				}
				tn := ""
				if sel, ok := cl.Type.(*ast.SelectorExpr); ok {
					if x, ok := sel.X.(*ast.Ident); ok {
						tn = x.Name + "." + sel.Sel.Name
					}
				}
				if tn != "http.Transport" && tn != "net.Dialer" && tn != "http.Server" {
					return true
				}
				for _, el := range cl.Elts {
					kv, ok := el.(*ast.KeyValueExpr)
					if !ok {
						continue
					}
					k, ok := kv.Key.(*ast.Ident)
					if !ok || !(strings.HasSuffix(k.Name, "Timeout") || k.Name == "Timeout") {
						continue
					}
					verdict := "UNBOUNDED"
					switch v := kv.Value.(type) {
					case *ast.Ident:
						if defaulted[v.Name] {
							verdict = "ok"
						} else {
							verdict = "UNBOUNDED:" + v.Name
						}
					case *ast.BinaryExpr: // 10 * time.Second
						if bl, ok := v.X.(*ast.BasicLit); ok && bl.Value != "0" {
							verdict = "ok"
						}
					}
					f.TimeoutFields = append(f.TimeoutFields, [3]string{fn, tn + "." + k.Name, verdict})
				}
				return true
			})
			return defaulted
		}
		check("AddBackend", findFunc(lb, "LoadBalancer", "AddBackend"))
		check("createHTTPServer", findFunc(mp, "", "createHTTPServer"))
		bh := findFunc(mp, "", "buildHandler")
		bd := check("buildHandler", bh)
		if bh != nil {
			ast.Inspect(bh, func(n ast.Node) bool {
				if ce, ok := n.(*ast.CallExpr); ok {
					if id, ok := ce.Fun.(*ast.Ident); ok && id.Name == "withHandlerTimeout" && len(ce.Args) == 2 {
						if a, ok := ce.Args[1].(*ast.Ident); ok && bd[a.Name] {
							f.HandlerTimeoutApplied = true
						}
					}
				}
				return true
			})
		}
		sort.Slice(f.TimeoutFields, func(i, j int) bool {
			return f.TimeoutFields[i][0]+f.TimeoutFields[i][1] < f.TimeoutFields[j][0]+f.TimeoutFields[j][1]
		})
	}

	// registered plugins
	for _, file := range pl {
		ast.Inspect(file, func(n ast.Node) bool {
			if ce, ok := n.(*ast.CallExpr); ok {
				if id, ok := ce.Fun.(*ast.Ident); ok && id.Name == "RegisterBuiltin" && len(ce.Args) == 2 {
					if s, ok := strLit(ce.Args[0]); ok {
						f.Plugins = append(f.Plugins, s)
					}
				}
			}
			return true
		})
	}
	sort.Strings(f.Plugins)

	// ---- output
	q := func(ss []string) string {
		var parts []string
		for _, s := range ss {
			parts = append(parts, strconv.Quote(s))
		}
		return "[" + strings.Join(parts, ", ") + "]"
	}
	b := func(x bool) string {
		if x {
			return "true"
		}
		return "false"
	}
	var sb strings.Builder
	sb.WriteString("/- GENERATED by /verif/go/extract from /repo's current working tree. Do not edit. -/\nnamespace Helios.Facts\n\n")
	sb.WriteString("structure Wrapper where\n  name : String\n  flush : Bool\n  hijack : Bool\n  unwrap : Bool\n  deriving Repr, DecidableEq\n\n")
	sb.WriteString("def writerWrappers : List Wrapper := [\n")
	for i, w := range f.Wrappers {
		sep := ","
		if i == len(f.Wrappers)-1 {
			sep = ""
		}
		fmt.Fprintf(&sb, "  ⟨%q, %s, %s, %s⟩%s\n", w.Name, b(w.Flush), b(w.Hijack), b(w.Unwrap), sep)
	}
	sb.WriteString("]\n\n")
	fmt.Fprintf(&sb, "def retryBudget : Int := %d\n", f.RetryBudget)
	fmt.Fprintf(&sb, "def rlCutoffNs : Int := %d\n", f.RLCutoffNs)
	fmt.Fprintf(&sb, "def jumpMul : Nat := %s\n", f.JumpMul)
	fmt.Fprintf(&sb, "def validatorStrategies : List String := %s\n", q(f.Strategies))
	fmt.Fprintf(&sb, "def setStrategyNames : List String := %s\n", q(f.SetStrategies))
	fmt.Fprintf(&sb, "def createStrategyNames : List String := %s\n", q(f.CreateStrategies))
	fmt.Fprintf(&sb, "def logLevels : List String := %s\n", q(f.LogLevels))
	fmt.Fprintf(&sb, "def logFormats : List String := %s\n", q(f.LogFormats))
	fmt.Fprintf(&sb, "def plugins : List String := %s\n", q(f.Plugins))
	sb.WriteString("def adminRoutes : List (String × Bool) := [")
	for i, r := range f.Routes {
		if i > 0 {
			sb.WriteString(", ")
		}
		fmt.Fprintf(&sb, "(%q, %s)", r[0], b(r[1] == "auth"))
	}
	sb.WriteString("]\n")
	fmt.Fprintf(&sb, "def ipFilterUsesHeaders : Bool := %s\n", b(f.IPFilterUsesHeaders))
	fmt.Fprintf(&sb, "def ipFilterFailOpen : Bool := %s\n", b(f.IPFilterFailOpen))
	fmt.Fprintf(&sb, "def stopSequence : List String := %s\n", q(f.StopSequence))
	fmt.Fprintf(&sb, "def wgAddFuncs : List String := %s\n", q(f.WgAddFuncs))
	fmt.Fprintf(&sb, "def fanoutCallers : List String := %s\n", q(f.FanoutCallers))
	fmt.Fprintf(&sb, "def probeChecksCtxFirst : Bool := %s\n", b(f.ProbeChecksCtxFirst))
	fmt.Fprintf(&sb, "def probeBoundToCtx : Bool := %s\n", b(f.ProbeBoundToCtx))
	fmt.Fprintf(&sb, "def gracefulSequence : List String := %s\n", q(f.GracefulSequence))
	fmt.Fprintf(&sb, "def gracefulStopAlways : Bool := %s\n", b(f.GracefulStopAlways))
	fmt.Fprintf(&sb, "def signalsStayRegistered : Bool := %s\n", b(f.SignalsStayRegistered))
	fmt.Fprintf(&sb, "def executeRecoverArm : Bool := %s\n", b(f.ExecuteRecoverArm))
	fmt.Fprintf(&sb, "def proxyFlushImmediate : Bool := %s\n", b(f.ProxyFlushImmediate))
	fmt.Fprintf(&sb, "def transportNoCompress : Bool := %s\n", b(f.TransportNoCompress))
	fmt.Fprintf(&sb, "def lbWriterMethods : List String := %s\n", q(f.LbWriterMethods))
	fmt.Fprintf(&sb, "def lbWriterForwards : Bool := %s\n", b(f.LbWriterForwards))
	fmt.Fprintf(&sb, "def handlerOrder : List String := %s\n", q(f.HandlerOrder))
	sb.WriteString("def timeoutFields : List (String × String × String) := [")
	for i, t := range f.TimeoutFields {
		if i > 0 {
			sb.WriteString(", ")
		}
		fmt.Fprintf(&sb, "(%q, %q, %q)", t[0], t[1], t[2])
	}
	sb.WriteString("]\n")
	fmt.Fprintf(&sb, "def handlerTimeoutApplied : Bool := %s\n", b(f.HandlerTimeoutApplied))
	fmt.Fprintf(&sb, "def extractionProblems : List String := %s\n", q(f.Problems))
	sb.WriteString("\nend Helios.Facts\n")
	fmt.Print(sb.String())
	if len(os.Args) > 2 {
		js, _ := json.MarshalIndent(f, "", " ")
		_ = os.WriteFile(os.Args[2], js, 0644)
	}
}
