//go:build verif

package ratelimiter

import (
	"bufio"
	"fmt"
	"os"
	"strconv"
	"strings"
	"testing"
	"time"

	verifclock "github.com/0xReLogic/Helios/internal/verifclock"
)

// TestVerifDriver executes the `rl …` lines of $VERIF_OPS against the real limiter under
// the virtual clock and writes one output line per op to $VERIF_OUT.
func TestVerifDriver(t *testing.T) {
	in, err := os.Open(os.Getenv("VERIF_OPS"))
	if err != nil {
		t.Fatal(err)
	}
	defer in.Close()
	outF, err := os.Create(os.Getenv("VERIF_OUT"))
	if err != nil {
		t.Fatal(err)
	}
	defer outF.Close()
	out := bufio.NewWriter(outF)
	defer out.Flush()

	var rl *TokenBucketRateLimiter
	sc := bufio.NewScanner(in)
	sc.Buffer(make([]byte, 1<<20), 1<<20)
	for sc.Scan() {
		line := sc.Text()
		if line == "" || strings.HasPrefix(line, "#") {
			continue
		}
		w := strings.Fields(line)
		res := "bad-op"
		// an operation still running after 60 s is wedged: say so and stop instead of sitting out
		// the test timeout (the main goroutine is stuck, so nobody else writes to `out`)
		wedged := time.AfterFunc(60*time.Second, func() {
			fmt.Fprintln(out, "hang")
			out.Flush()
			os.Exit(3)
		})
		if len(w) >= 2 && w[0] == "rl" {
			switch w[1] {
			case "new":
				if len(w) == 5 {
					mx, e1 := strconv.Atoi(w[2])
					rf, e2 := strconv.ParseInt(w[3], 10, 64)
					if e1 == nil && e2 == nil {
						verifclock.Set(0)
						rl = NewTokenBucketRateLimiter(mx, time.Duration(rf))
						res = "ok"
					}
				}
			case "allow":
				if len(w) == 4 && rl != nil {
					now, e := strconv.ParseInt(w[3], 10, 64)
					if e == nil {
						verifclock.Set(now)
						if rl.Allow(w[2]) {
							res = "1"
						} else {
							res = "0"
						}
					}
				}
			case "cleanup":
				if len(w) == 3 && rl != nil {
					now, e := strconv.ParseInt(w[2], 10, 64)
					if e == nil {
						verifclock.Set(now)
						rl.cleanup()
						res = "ok"
					}
				}
			}
		}
		wedged.Stop()
		fmt.Fprintln(out, res)
	}
}
