//go:build verif

package circuitbreaker

import (
	"runtime"
	"sync"
	"sync/atomic"
	"bufio"
	"errors"
	"fmt"
	"os"
	"strconv"
	"strings"
	"testing"
	"time"

	verifclock "github.com/0xReLogic/Helios/internal/verifclock"
)

type inflight struct {
	result chan string // "ok" | "fail" | "panic"
	done   chan error
}

func stName(s State) string {
	switch s {
	case StateClosed:
		return "C"
	case StateOpen:
		return "O"
	case StateHalfOpen:
		return "H"
	}
	return "?"
}

func obs(cb *CircuitBreaker) string {
	f, s, r := cb.Counts()
	return fmt.Sprintf("st=%s counts=%d,%d,%d", stName(cb.State()), f, s, r)
}

// TestVerifDriver executes `cb …` op lines against the real breaker under the virtual clock.
// Requests are split into begin/end so that they can overlap: `begin` starts Execute in a
// goroutine whose fn blocks until the matching `end` delivers its outcome.
func TestVerifDriver(t *testing.T) {
	in, err := os.Open(os.Getenv("VERIF_OPS"))
	if err != nil {
		t.Fatal(err)
	}
	defer in.Close()
	outF, err := os.Create(os.Getenv("VERIF_OUT"))
	if err != nil {
		t.Fatal(err)
	}
	defer outF.Close()
	out := bufio.NewWriter(outF)
	defer out.Flush()

	var cb *CircuitBreaker
	fl := map[string]*inflight{}
	var changes []string
	sc := bufio.NewScanner(in)
	sc.Buffer(make([]byte, 1<<20), 1<<20)
	for sc.Scan() {
		line := sc.Text()
		if line == "" || strings.HasPrefix(line, "#") {
			continue
		}
		w := strings.Fields(line)
		res := "bad-op"
		// an operation still running after 240 s is wedged: say so and stop instead of sitting out
		// the test timeout (the main goroutine is stuck, so nobody else writes to `out`)
		wedged := time.AfterFunc(240*time.Second, func() {
			fmt.Fprintln(out, "hang")
			out.Flush()
			os.Exit(3)
		})
		if len(w) >= 2 && w[0] == "cb" {
			switch w[1] {
			case "new":
				if len(w) == 7 {
					var v [5]int64
					ok := true
					for i := 0; i < 5; i++ {
						x, e := strconv.ParseInt(w[2+i], 10, 64)
						if e != nil || x < 0 {
							ok = false
						}
						v[i] = x
					}
					if ok {
						// release anything still in flight from the previous episode
						for k, f := range fl {
							f.result <- "ok"
							<-f.done
							delete(fl, k)
						}
						verifclock.Set(0)
						changes = nil
						cb = NewCircuitBreaker(Settings{Name: "v", FailureThreshold: uint32(v[0]), SuccessThreshold: uint32(v[1]),
							MaxRequests: uint32(v[2]), Interval: time.Duration(v[3]), Timeout: time.Duration(v[4]),
							OnStateChange: func(name string, from, to State) {
								// the callback reads the breaker, as Helios' own callback does
								_, _, _ = cb.Counts()
								changes = append(changes, stName(from)+">"+stName(to))
							}})
						res = "ok"
					}
				}
			case "race":
				// race <callers> <max_requests> <rounds>: per round a fresh breaker is opened by one
				// failure, the (virtual) timeout elapses, and <callers> goroutines released together
				// call Execute with a function that stays in flight until all have been decided.
				// Reports the largest number of trials that were in flight at once.
				if len(w) == 5 {
					callers, _ := strconv.Atoi(w[2])
					mx, _ := strconv.Atoi(w[3])
					rounds, _ := strconv.Atoi(w[4])
					if callers < 1 || callers > 64 || mx < 1 || rounds < 1 || rounds > 5000 {
						break
					}
					worst, worstRound := 0, -1
					for r := 0; r < rounds; r++ {
						verifclock.Set(0)
						b := NewCircuitBreaker(Settings{Name: "r", FailureThreshold: 1, SuccessThreshold: uint32(mx),
							MaxRequests: uint32(mx), Interval: time.Hour, Timeout: time.Millisecond})
						_ = b.Execute(func() error { return fmt.Errorf("boom") })
						verifclock.Set(int64(2 * time.Millisecond))
						var admitted int32
						var decided sync.WaitGroup
						var ready, goFlag int32 // spin barrier: all callers enter Execute within nanoseconds
						hold := make(chan struct{})
						var all sync.WaitGroup
						decided.Add(callers)
						for c := 0; c < callers; c++ {
							all.Add(1)
							go func() {
								defer all.Done()
								atomic.AddInt32(&ready, 1)
								for atomic.LoadInt32(&goFlag) == 0 {
								}
								once := false
								_ = b.Execute(func() error {
									atomic.AddInt32(&admitted, 1)
									once = true
									decided.Done()
									<-hold
									return nil
								})
								if !once {
									decided.Done()
								}
							}()
						}
						for atomic.LoadInt32(&ready) < int32(callers) {
							runtime.Gosched()
						}
						atomic.StoreInt32(&goFlag, 1)
						decided.Wait()
						n := int(atomic.LoadInt32(&admitted))
						close(hold)
						all.Wait()
						if n > worst {
							worst, worstRound = n, r
						}
					}
					if worst <= mx {
						res = "within-budget"
					} else {
						res = fmt.Sprintf("OVER-BUDGET admitted=%d max_requests=%d round=%d", worst, mx, worstRound)
					}
				}
			case "reopen":
				// reopen <callers> <rounds>: per round a fresh breaker (one trial allowed) is opened by one failure, the
				// (virtual) timeout elapses, and <callers> goroutines released together call Execute with a function that
				// fails at once. The first trial re-opens the breaker with a fresh timeout in that same instant, so
				// exactly one call may reach the function per round, whatever the callers had read before.
				if len(w) == 4 {
					callers, _ := strconv.Atoi(w[2])
					rounds, _ := strconv.Atoi(w[3])
					if callers < 2 || callers > 64 || rounds < 1 || rounds > 100000 {
						break
					}
					worst, worstRound := 0, -1
					for r := 0; r < rounds; r++ {
						verifclock.Set(0)
						b := NewCircuitBreaker(Settings{Name: "r", FailureThreshold: 1, SuccessThreshold: 1,
							MaxRequests: 1, Interval: time.Hour, Timeout: time.Millisecond})
						_ = b.Execute(func() error { return fmt.Errorf("boom") })
						verifclock.Set(int64(2 * time.Millisecond))
						var ran int32
						var ready, goFlag int32
						var all sync.WaitGroup
						for c := 0; c < callers; c++ {
							all.Add(1)
							go func() {
								defer all.Done()
								atomic.AddInt32(&ready, 1)
								for atomic.LoadInt32(&goFlag) == 0 {
								}
								_ = b.Execute(func() error {
									atomic.AddInt32(&ran, 1)
									return fmt.Errorf("still down")
								})
							}()
						}
						for atomic.LoadInt32(&ready) < int32(callers) {
							runtime.Gosched()
						}
						atomic.StoreInt32(&goFlag, 1)
						all.Wait()
						if n := int(atomic.LoadInt32(&ran)); n > worst {
							worst, worstRound = n, r
						}
					}
					if worst <= 1 {
						res = "single-trial"
					} else {
						res = fmt.Sprintf("EXTRA-TRIALS backend contacted %d times in one instant although the first trial had re-opened the breaker (round %d)", worst, worstRound)
						res = strings.ReplaceAll(res, " ", "_")
					}
				}
			case "notifyrace":
				// notifyrace <callers> <rounds>: state changes made by concurrent requests while an
				// observer (which reads the breaker, as the balancer's does) is still being notified
				// of the previous one; a round that does not finish within 3 s is a deadlock
				if len(w) == 4 {
					callers, _ := strconv.Atoi(w[2])
					rounds, _ := strconv.Atoi(w[3])
					if callers < 2 || callers > 64 || rounds < 1 || rounds > 100000 {
						break
					}
					res = "live"
					for r := 0; r < rounds && res == "live"; r++ {
						verifclock.Set(0)
						var b *CircuitBreaker
						b = NewCircuitBreaker(Settings{Name: "n", FailureThreshold: 1, SuccessThreshold: 1,
							MaxRequests: uint32(callers), Interval: time.Hour, Timeout: time.Millisecond,
							OnStateChange: func(name string, from, to State) {
								runtime.Gosched()
								_, _, _ = b.Counts()
								_ = b.State()
							}})
						_ = b.Execute(func() error { return fmt.Errorf("boom") })
						verifclock.Set(int64(2 * time.Millisecond))
						var ready, goFlag int32
						var all sync.WaitGroup
						for c := 0; c < callers; c++ {
							all.Add(1)
							go func(c int) {
								defer all.Done()
								atomic.AddInt32(&ready, 1)
								for atomic.LoadInt32(&goFlag) == 0 {
								}
								for k := 0; k < 4; k++ {
									_ = b.Execute(func() error {
										if (c+k)%2 == 0 {
											return fmt.Errorf("boom")
										}
										return nil
									})
									verifclock.Set(int64(time.Duration(4+k) * time.Millisecond))
								}
							}(c)
						}
						for atomic.LoadInt32(&ready) < int32(callers) {
							runtime.Gosched()
						}
						atomic.StoreInt32(&goFlag, 1)
						fin := make(chan struct{})
						go func() { all.Wait(); close(fin) }()
						select {
						case <-fin:
						case <-time.After(3 * time.Second):
							res = fmt.Sprintf("DEADLOCK round=%d: requests and state reads hang while a state change is being notified", r)
						}
					}
				}
			case "begin":
				if len(w) == 4 && cb != nil && fl[w[2]] == nil {
					now, e := strconv.ParseInt(w[3], 10, 64)
					if e == nil {
						verifclock.Set(now)
						f := &inflight{result: make(chan string), done: make(chan error, 1)}
						entered := make(chan struct{})
						go func() {
							var err error
							defer func() {
								if r := recover(); r != nil {
									err = errors.New("panicked")
								}
								f.done <- err
							}()
							err = cb.Execute(func() error {
								close(entered)
								switch <-f.result {
								case "ok":
									return nil
								case "panic":
									panic("verif")
								}
								return errors.New("failed")
							})
						}()
						select {
						case <-entered:
							fl[w[2]] = f
							res = "adm " + obs(cb)
						case err := <-f.done:
							switch err {
							case ErrCircuitBreakerOpen:
								res = "open " + obs(cb)
							case ErrTooManyRequests:
								res = "toomany " + obs(cb)
							default:
								res = "other " + obs(cb)
							}
						case <-time.After(5 * time.Second):
							res = "hang"
						}
					}
				}
			case "end":
				if len(w) == 5 && cb != nil {
					now, e := strconv.ParseInt(w[4], 10, 64)
					f := fl[w[2]]
					if e == nil && f == nil {
						res = "unknown " + obs(cb)
					} else if e == nil {
						verifclock.Set(now)
						f.result <- w[3]
						select {
						case <-f.done:
							delete(fl, w[2])
							res = "ended " + obs(cb)
						case <-time.After(5 * time.Second):
							res = "hang"
						}
					}
				}
			case "changes":
				res = "changes=" + strings.Join(changes, ",")
			}
		}
		wedged.Stop()
		fmt.Fprintln(out, res)
	}
}
