//go:build verif

// Package verifclock is a virtual clock injected by the verification overlay: the
// instrumented copies of Helios sources call verifclock.Now()/Since() instead of
// time.Now()/time.Since().  It is never part of a normal build.
package verifclock

import (
	"sync/atomic"
	"time"
)

var offset atomic.Int64

// base has no monotonic reading, so Sub/After/Before compare wall instants only.
var base = time.Unix(1_700_000_000, 0)

// Now returns the virtual instant.
func Now() time.Time { return base.Add(time.Duration(offset.Load())) }

// Since mirrors time.Since on the virtual clock.
func Since(t time.Time) time.Duration { return Now().Sub(t) }

// Set moves the clock to ns nanoseconds after the base instant.
func Set(ns int64) { offset.Store(ns) }

// Advance moves the clock forward.
func Advance(d time.Duration) { offset.Add(int64(d)) }

// Base is the instant of Set(0).
func Base() time.Time { return base }
