//go:build verif

package adminapi

import (
	"encoding/hex"
	"time"
	"bufio"
	"fmt"
	"net/http"
	"net/http/httptest"
	"net/url"
	"os"
	"sort"
	"strings"
	"sync"
	"testing"

	"github.com/0xReLogic/Helios/internal/config"
	"github.com/0xReLogic/Helios/internal/loadbalancer"
	"github.com/0xReLogic/Helios/internal/logging"
)

func unesc(s string) string {
	if s == "-" {
		return ""
	}
	u, err := url.PathUnescape(s)
	if err != nil {
		return s
	}
	return u
}

// entries: "str~parsed,str~parsed" (parsed part is for the model only)
func entries(s string) []string {
	s = s[2:]
	if s == "" {
		return nil
	}
	var out []string
	for _, e := range strings.Split(s, ",") {
		raw := strings.SplitN(e, "~", 2)[0]
		if raw == "%00" { // the empty entry (a dangling "- " in the YAML list)
			out = append(out, "")
			continue
		}
		out = append(out, unesc(raw))
	}
	return out
}

var quiet sync.Once

// TestVerifDriver: `adm …` op lines against the real NewMux over a real LoadBalancer.
func TestVerifDriver(t *testing.T) {
	quiet.Do(func() { logging.Init(config.LoggingConfig{Level: "fatal", Format: "json"}) })
	in, err := os.Open(os.Getenv("VERIF_OPS"))
	if err != nil {
		t.Fatal(err)
	}
	defer in.Close()
	outF, err := os.Create(os.Getenv("VERIF_OUT"))
	if err != nil {
		t.Fatal(err)
	}
	defer outF.Close()
	out := bufio.NewWriter(outF)
	defer out.Flush()

	var lb *loadbalancer.LoadBalancer
	var cfg *config.Config
	var h http.Handler
	digest := func() string {
		var names []string
		for _, b := range lb.ListBackends() {
			names = append(names, url.PathEscape(b.Name))
		}
		sort.Strings(names)
		return strings.Join(names, ",") + "|" + cfg.LoadBalancer.Strategy
	}
	sc := bufio.NewScanner(in)
	sc.Buffer(make([]byte, 1<<20), 1<<20)
	for sc.Scan() {
		line := sc.Text()
		if line == "" || strings.HasPrefix(line, "#") {
			continue
		}
		w := strings.Fields(line)
		res := "bad-op"
		// an operation still running after 60 s is wedged: say so and stop instead of sitting out
		// the test timeout (the main goroutine is stuck, so nobody else writes to `out`)
		wedged := time.AfterFunc(60*time.Second, func() {
			fmt.Fprintln(out, "hang")
			out.Flush()
			os.Exit(3)
		})
		if len(w) >= 2 && w[0] == "adm" {
			switch w[1] {
			case "new":
				// adm new <token|-> A=<entries> D=<entries>
				if len(w) == 5 {
					if lb != nil {
						lb.Stop()
					}
					cfg = &config.Config{}
					cfg.LoadBalancer.Strategy = "round_robin"
					cfg.AdminAPI = config.AdminAPIConfig{Enabled: true, Port: 9091, AuthToken: unesc(w[2]),
						IPAllowList: entries(w[3]), IPDenyList: entries(w[4])}
					// as the binary does: the configuration passes through Validate before anything is
					// built from it (whatever Validate does to the admin section is part of the path)
					cfg.Server.Port = 8080
					cfg.Backends = []config.BackendConfig{{Name: "seed", Address: "http://127.0.0.1:9", Weight: 1}}
					verr := cfg.Validate()
					cfg.Backends = nil
					if verr != nil {
						err = verr
					} else {
						lb, err = loadbalancer.NewLoadBalancer(cfg)
					}
					if err == nil {
						h = NewMux(lb, cfg, lb.GetMetricsCollector())
						res = "ok"
					}
				}
			case "padd", "prm":
				// adm padd <name|-> <address|-> <weight|->   POST /v1/backends/add with exactly the listed keys in the JSON body
				// adm prm <name|->                            POST /v1/backends/remove
				// (an administrator in good standing: the configured token, a loopback peer); the answer is the status and
				// the listing afterwards — what a request does depends on its own body only, not on the requests before it
				if h != nil && ((w[1] == "padd" && len(w) == 5) || (w[1] == "prm" && len(w) == 3)) {
					var keys []string
					path := "/v1/backends/remove"
					if v := unesc(w[2]); w[2] != "-" {
						keys = append(keys, fmt.Sprintf(`"name":%q`, v))
					}
					if w[1] == "padd" {
						path = "/v1/backends/add"
						if v := unesc(w[3]); w[3] != "-" {
							keys = append(keys, fmt.Sprintf(`"address":%q`, v))
						}
						if w[4] != "-" {
							keys = append(keys, `"weight":`+w[4])
						}
					}
					req := httptest.NewRequest("POST", "http://admin.local"+path, strings.NewReader("{"+strings.Join(keys, ",")+"}"))
					if cfg.AdminAPI.AuthToken != "" {
						req.Header.Set("Authorization", "Bearer "+cfg.AdminAPI.AuthToken)
					}
					req.RemoteAddr = "127.0.0.1:40000"
					rec := httptest.NewRecorder()
					h.ServeHTTP(rec, req)
					var ents []string
					for _, b := range lb.ListBackends() {
						ents = append(ents, fmt.Sprintf("%s|%d|%s", hex.EncodeToString([]byte(b.Name)), b.Weight, hex.EncodeToString([]byte(b.Address))))
					}
					sort.Strings(ents)
					res = fmt.Sprintf("code=%d list=%s", rec.Code, strings.Join(ents, ","))
				}
			case "req":
				// adm req <method> <path> <authz|-> <remote> <peerparsed> <xff|-> <xri|-> <bodykind>
				if len(w) == 10 && h != nil {
					var body string
					bk := w[9]
					switch {
					case strings.HasPrefix(bk, "add:"):
						p := strings.SplitN(bk[4:], ":", 2)
						addr := "http://127.0.0.1:1"
						if p[1] == "bad" {
							addr = "http://[::1"
						}
						body = fmt.Sprintf(`{"name":%q,"address":%q,"weight":1}`, unesc(p[0]), addr)
					case strings.HasPrefix(bk, "rm:"):
						body = fmt.Sprintf(`{"name":%q}`, unesc(bk[3:]))
					case strings.HasPrefix(bk, "st:"):
						body = fmt.Sprintf(`{"strategy":%q}`, unesc(bk[3:]))
					case bk == "bad":
						body = `{"name":`
					}
					req := httptest.NewRequest(w[2], "http://admin.local"+unesc(w[3]), strings.NewReader(body))
					if a := unesc(w[4]); a != "" {
						req.Header.Set("Authorization", a)
					}
					req.RemoteAddr = unesc(w[5])
					if x := unesc(w[7]); x != "" {
						req.Header.Set("X-Forwarded-For", x)
					}
					if x := unesc(w[8]); x != "" {
						req.Header.Set("X-Real-IP", x)
					}
					before := digest()
					rec := httptest.NewRecorder()
					h.ServeHTTP(rec, req)
					after := digest()
					class := fmt.Sprintf("served:%d", rec.Code)
					b := rec.Body.String()
					switch {
					case rec.Code == 403 && strings.HasPrefix(b, "Forbidden"):
						class = "forbidden"
					case rec.Code == 401 && b == "unauthorized":
						class = "unauth"
					case rec.Code == 404 || rec.Code == 301:
						class = "noroute"
					}
					leak := ""
					if (class == "forbidden" || class == "unauth") && (before != after || strings.Contains(b, "127.0.0.1") || strings.Contains(b, "total_requests")) {
						leak = " LEAK"
					}
					res = class + " state=" + after + leak
				}
			}
		}
		wedged.Stop()
		fmt.Fprintln(out, res)
	}
}
