//go:build verif

package main

import (
	"bytes"
	"fmt"
	"io"
	"math/rand"
	"net"
	"net/http"
	"net/http/httptest"
	"os"
	"runtime"
	"strconv"
	"strings"
	"sync"
	"sync/atomic"
	"testing"
	"time"

	"github.com/0xReLogic/Helios/internal/adminapi"
	"github.com/0xReLogic/Helios/internal/config"
	"github.com/0xReLogic/Helios/internal/loadbalancer"
	"github.com/0xReLogic/Helios/internal/logging"
)

// TestVerifRace: the whole composition of cmd/helios under concurrent load, meant to be run
// from a binary built with -race. Client goroutines send requests through buildHandler's
// chain (plugins -> request context -> balancer) to real backends that misbehave part of the
// time (500s, resets), so passive ejections, breaker trips, retries and rate limiting all
// happen; admin goroutines add / remove / re-weight backends, switch strategy and list; metrics
// and health readers poll; active probes run; finally Stop is called while requests are
// still in flight. The race detector (and the test timeout, for deadlocks) is the oracle.
//
//	VERIF_RACE_STRATEGY  initial strategy
//	VERIF_RACE_MS        duration of the load phase
//	VERIF_RACE_SEED      PRNG seed of the actors
//	VERIF_RACE_PROFILE   calm | storm
func TestVerifRace(t *testing.T) {
	logging.Init(config.LoggingConfig{Level: "fatal", Format: "json"})
	strategy := os.Getenv("VERIF_RACE_STRATEGY")
	if strategy == "" {
		strategy = "round_robin"
	}
	ms, _ := strconv.Atoi(os.Getenv("VERIF_RACE_MS"))
	if ms <= 0 {
		ms = 1500
	}
	seed, _ := strconv.ParseInt(os.Getenv("VERIF_RACE_SEED"), 10, 64)

	// profile "storm": low thresholds, so ejection / expiry / breaker transitions / limiting
	// happen all the time; "calm": most requests are proxied
	storm := os.Getenv("VERIF_RACE_PROFILE") == "storm"
	pick := func(calm, st int) int {
		if storm {
			return st
		}
		return calm
	}
	var flaky atomic.Int32 // percentage of bad answers
	flaky.Store(int32(pick(4, 12)))
	mkBackend := func(id int) *httptest.Server {
		var n atomic.Int64
		return httptest.NewServer(http.HandlerFunc(func(w http.ResponseWriter, r *http.Request) {
			k := n.Add(1)
			if r.URL.Path == "/health" {
				if k%29 == 0 {
					w.WriteHeader(503)
					return
				}
				w.WriteHeader(200)
				return
			}
			if r.URL.Path == "/slow" {
				time.Sleep(1250 * time.Millisecond) // longer than the handler timeout (1 s)
			}
			if int32((k*37+int64(id)*11)%100) < flaky.Load() {
				if k%2 == 0 {
					w.WriteHeader(500)
					return
				}
				if hj, ok := w.(http.Hijacker); ok {
					c, _, err := hj.Hijack()
					if err == nil {
						if tc, ok := c.(*net.TCPConn); ok {
							_ = tc.SetLinger(0)
						}
						_ = c.Close()
						return
					}
				}
			}
			w.Header().Set("Content-Type", "text/plain")
			_, _ = io.Copy(io.Discard, r.Body)
			_, _ = w.Write(bytes.Repeat([]byte("helios "), 50+int(k%300)))
		}))
	}
	var backends []*httptest.Server
	for i := 0; i < 4; i++ {
		backends = append(backends, mkBackend(i))
	}
	defer func() {
		for _, b := range backends {
			b.Close()
		}
	}()

	cfg := &config.Config{}
	cfg.LoadBalancer.Strategy = strategy
	cfg.LoadBalancer.WebSocketPool = config.WebSocketPoolConfig{Enabled: true, MaxIdle: 2, MaxActive: 8, IdleTimeoutSeconds: 1}
	for i, b := range backends[:3] {
		cfg.Backends = append(cfg.Backends, config.BackendConfig{Name: fmt.Sprintf("b%d", i), Address: b.URL, Weight: i + 1})
	}
	cfg.Server.Timeouts.Handler = 1
	cfg.HealthChecks.Active = config.ActiveHealthCheckConfig{Enabled: true, Interval: 1, Timeout: 1, Path: "/health"}
	cfg.HealthChecks.Passive = config.PassiveHealthCheckConfig{Enabled: true, UnhealthyThreshold: pick(40, 4), UnhealthyTimeout: 1}
	cfg.RateLimit = config.RateLimitConfig{Enabled: true, MaxTokens: pick(400, 30), RefillRate: 1}
	cfg.CircuitBreaker = config.CircuitBreakerConfig{Enabled: true, MaxRequests: 2, IntervalSeconds: 1, TimeoutSeconds: 1, FailureThreshold: pick(150, 20), SuccessThreshold: 2}
	cfg.Metrics = config.MetricsConfig{Enabled: true, Port: 0, Path: "/metrics"}
	cfg.AdminAPI = config.AdminAPIConfig{Enabled: true, AuthToken: "tok", IPAllowList: []string{"192.0.2.0/24", "127.0.0.1"}}
	cfg.Logging.RequestID = config.RequestIDConfig{Enabled: true}
	cfg.Logging.Trace = config.TraceConfig{Enabled: true}
	cfg.Plugins.Enabled = true
	cfg.Plugins.Chain = []config.PluginConfig{
		{Name: "request-id"},
		{Name: "headers", Config: map[string]interface{}{"set": map[string]interface{}{"X-Via": "helios"}}},
		{Name: "gzip", Config: map[string]interface{}{"level": 5, "min_size": 256, "content_types": []interface{}{"text/plain"}}},
		{Name: "size_limit", Config: map[string]interface{}{"max_request_body": 4096, "max_response_body": 1 << 20}},
	}

	lb, err := loadbalancer.NewLoadBalancer(cfg)
	if err != nil {
		t.Fatalf("NewLoadBalancer: %v", err)
	}
	handler, err := buildHandler(cfg, lb)
	if err != nil {
		t.Fatalf("buildHandler: %v", err)
	}
	mc := lb.GetMetricsCollector()
	admin := adminapi.NewMux(lb, cfg, mc)
	metricsH := http.HandlerFunc(mc.MetricsHandler())
	healthH := http.HandlerFunc(mc.HealthHandler())

	deadline := time.Now().Add(time.Duration(ms) * time.Millisecond)
	var wg sync.WaitGroup
	var nReq, nAdmin, nRead, adminErrs atomic.Int64
	var hist [6]atomic.Int64 // 2xx, 429, 500, 502, 503, other
	strategies := []string{"round_robin", "least_connections", "weighted_round_robin", "ip_hash", "ip_hash_consistent"}

	for g := 0; g < 8; g++ {
		wg.Add(1)
		go func(g int) {
			defer wg.Done()
			rng := rand.New(rand.NewSource(seed*100 + int64(g)))
			for time.Now().Before(deadline.Add(150 * time.Millisecond)) { // overlaps Stop
				body := strings.NewReader(strings.Repeat("x", rng.Intn(4300)))
				path := "/p"
				if g == 7 && rng.Intn(3) == 0 {
					path = "/slow" // this exchange runs into server.timeouts.handler
				}
				r := httptest.NewRequest([]string{"GET", "POST", "HEAD"}[rng.Intn(3)], path, body)
				r.RemoteAddr = fmt.Sprintf("198.51.100.%d:4000", rng.Intn(40))
				if rng.Intn(2) == 0 {
					r.Header.Set("X-Forwarded-For", fmt.Sprintf("203.0.113.%d", rng.Intn(30)))
				}
				if rng.Intn(2) == 0 {
					r.Header.Set("Accept-Encoding", "gzip")
				}
				w := httptest.NewRecorder()
				func() {
					defer func() { _ = recover() }() // http.ErrAbortHandler from ReverseProxy
					handler.ServeHTTP(w, r)
				}()
				nReq.Add(1)
				switch c := w.Code; {
				case c >= 200 && c < 300:
					hist[0].Add(1)
				case c == 429:
					hist[1].Add(1)
					time.Sleep(500 * time.Microsecond)
				case c == 500:
					hist[2].Add(1)
				case c == 502:
					hist[3].Add(1)
				case c == 503:
					if os.Getenv("VERIF_RACE_DEBUG") != "" && hist[4].Load()%500 == 0 {
						fmt.Println("503:", strings.TrimSpace(w.Body.String()))
					}
					hist[4].Add(1)
					time.Sleep(500 * time.Microsecond)
				default:
					hist[5].Add(1)
				}
			}
		}(g)
	}
	for g := 0; g < 2; g++ {
		wg.Add(1)
		go func(g int) {
			defer wg.Done()
			rng := rand.New(rand.NewSource(seed*100 + 50 + int64(g)))
			call := func(method, path, body string) (int, string) {
				r := httptest.NewRequest(method, path, strings.NewReader(body))
				r.RemoteAddr = "192.0.2.7:999"
				r.Header.Set("Authorization", "Bearer tok")
				rec := httptest.NewRecorder()
				admin.ServeHTTP(rec, r)
				nAdmin.Add(1)
				return rec.Code, rec.Body.String()
			}
			// this actor is the only one that adds / removes backend x<g>: what it was told
			// (201 added, 200 removed) must be what the listing shows, whatever the other
			// actors (strategy switches, the other actor's adds and removes) do meanwhile
			mine := fmt.Sprintf("x%d", g)
			present := false
			listed := func() bool {
				_, body := call("GET", "/v1/backends", "")
				return strings.Contains(body, `"`+mine+`"`)
			}
			if os.Getenv("VERIF_RACE_PROFILE") == "admin" {
				// admin storm: add / list / remove / list in a tight loop while another goroutine
				// cycles the strategies without pause
				for time.Now().Before(deadline) {
					code, _ := call("POST", "/v1/backends/add", fmt.Sprintf(`{"name":%q,"address":%q,"weight":2}`, mine, backends[3].URL))
					if code != 201 {
						adminErrs.Add(1)
						t.Errorf("VERIF-ADMIN add of absent backend %s answered %d", mine, code)
					}
					if !listed() {
						adminErrs.Add(1)
						t.Errorf("VERIF-ADMIN lost update: backend %s was added (201) but is not listed", mine)
					}
					code, _ = call("POST", "/v1/backends/remove", fmt.Sprintf(`{"name":%q}`, mine))
					if code != 200 {
						adminErrs.Add(1)
						t.Errorf("VERIF-ADMIN remove of %s answered %d", mine, code)
					}
					if listed() {
						adminErrs.Add(1)
						t.Errorf("VERIF-ADMIN lost update: backend %s was removed (200) but is still listed", mine)
						call("POST", "/v1/backends/remove", fmt.Sprintf(`{"name":%q}`, mine))
					}
					if adminErrs.Load() > 5 {
						return
					}
				}
				return
			}
			for time.Now().Before(deadline) {
				switch rng.Intn(6) {
				case 0:
					code, _ := call("POST", "/v1/backends/add", fmt.Sprintf(`{"name":%q,"address":%q,"weight":%d}`, mine, backends[3].URL, 1+rng.Intn(5)))
					if code == 201 {
						present = true
					} else if !present && code != 201 {
						adminErrs.Add(1)
						t.Errorf("VERIF-ADMIN add of absent backend %s answered %d", mine, code)
					}
				case 1:
					code, _ := call("POST", "/v1/backends/remove", fmt.Sprintf(`{"name":%q}`, mine))
					if code == 200 {
						present = false
					}
				case 2:
					call("POST", "/v1/strategy", fmt.Sprintf(`{"strategy":%q}`, strategies[rng.Intn(len(strategies))]))
				case 3:
					if got := listed(); got != present {
						adminErrs.Add(1)
						t.Errorf("VERIF-ADMIN lost update: backend %s present=%v according to the answers this actor received, listed=%v", mine, present, got)
						present = got
					}
				case 4:
					call("GET", "/v1/metrics", "")
				case 5:
					flaky.Store(int32(rng.Intn(12)))
				}
				time.Sleep(time.Duration(rng.Intn(3)) * time.Millisecond)
			}
		}(g)
	}
	for g := 0; g < 2; g++ {
		wg.Add(1)
		go func(g int) {
			defer wg.Done()
			for time.Now().Before(deadline.Add(150 * time.Millisecond)) {
				r := httptest.NewRequest("GET", "/metrics", nil)
				metricsH.ServeHTTP(httptest.NewRecorder(), r)
				healthH.ServeHTTP(httptest.NewRecorder(), httptest.NewRequest("GET", "/health", nil))
				_ = lb.ListBackends()
				nRead.Add(1)
				time.Sleep(time.Millisecond)
			}
		}(g)
	}
	if os.Getenv("VERIF_RACE_PROFILE") == "admin" {
		wg.Add(1)
		go func() {
			defer wg.Done()
			i := 0
			for time.Now().Before(deadline) {
				r := httptest.NewRequest("POST", "/v1/strategy", strings.NewReader(fmt.Sprintf(`{"strategy":%q}`, strategies[i%len(strategies)])))
				r.RemoteAddr = "192.0.2.7:999"
				r.Header.Set("Authorization", "Bearer tok")
				admin.ServeHTTP(httptest.NewRecorder(), r)
				i++
			}
		}()
	}
	time.Sleep(time.Until(deadline))
	stopped := make(chan struct{})
	go func() { lb.Stop(); lb.Stop(); close(stopped) }()
	select {
	case <-stopped:
	case <-time.After(20 * time.Second):
		t.Fatalf("VERIF-DEADLOCK Stop did not return")
	}
	done := make(chan struct{})
	go func() { wg.Wait(); close(done) }()
	select {
	case <-done:
	case <-time.After(30 * time.Second):
		t.Fatalf("VERIF-DEADLOCK actors did not finish")
	}
	fmt.Printf("race-workload done profile=%s strategy=%s requests=%d admin=%d reads=%d ok=%d limited=%d s500=%d s502=%d s503=%d other=%d\n", os.Getenv("VERIF_RACE_PROFILE"), strategy, nReq.Load(), nAdmin.Load(), nRead.Load(),
		hist[0].Load(), hist[1].Load(), hist[2].Load(), hist[3].Load(), hist[4].Load(), hist[5].Load())
}

// TestVerifGauge: waves of requests that finish together, then quiescence: the in-flight gauge
// of every backend and the gauge published to the metrics must both read zero (C13). A search
// over schedules for the "publish in the wrong order" interleaving.
func TestVerifGauge(t *testing.T) {
	logging.Init(config.LoggingConfig{Level: "fatal", Format: "json"})
	rounds, _ := strconv.Atoi(os.Getenv("VERIF_GAUGE_ROUNDS"))
	if rounds <= 0 {
		rounds = 1500
	}
	var served atomic.Int64
	be := httptest.NewServer(http.HandlerFunc(func(w http.ResponseWriter, r *http.Request) {
		if served.Add(1)%97 == 1 {
			time.Sleep(1500 * time.Microsecond) // now and then a measurable response time
		}
		w.WriteHeader(204)
	}))
	defer be.Close()
	cfg := &config.Config{}
	cfg.LoadBalancer.Strategy = "round_robin"
	cfg.Backends = []config.BackendConfig{{Name: "g0", Address: be.URL}}
	lb, err := loadbalancer.NewLoadBalancer(cfg)
	if err != nil {
		t.Fatal(err)
	}
	defer lb.Stop()
	var h http.Handler = lb // the balancer itself: the middleware above only dilutes the contention
	for round := 0; round < rounds; round++ {
		var wg sync.WaitGroup
		for g := 0; g < 48; g++ {
			wg.Add(1)
			go func() {
				defer wg.Done()
				for i := 0; i < 3; i++ {
					h.ServeHTTP(httptest.NewRecorder(), httptest.NewRequest("GET", "/", nil))
				}
			}()
		}
		wg.Wait()
		for _, b := range lb.ListBackends() {
			if b.ActiveConnections != 0 {
				t.Fatalf("VERIF-GAUGE round %d: backend %s gauge %d while idle", round, b.Name, b.ActiveConnections)
			}
		}
		m := lb.GetMetricsCollector().GetMetrics()
		for name, bm := range m.BackendMetrics {
			if bm.ActiveConnections != 0 {
				t.Fatalf("VERIF-GAUGE round %d: metrics report active_connections=%d for %s while nothing is in flight", round, bm.ActiveConnections, name)
			}
			// one backend: everything the balancer forwarded is on its books, nothing else
			if sent := uint64(served.Load()); bm.TotalRequests != sent || bm.SuccessfulRequests+bm.FailedRequests != bm.TotalRequests {
				t.Fatalf("VERIF-GAUGE round %d: backend %s received %d requests, its books show total=%d ok=%d failed=%d", round, name, sent, bm.TotalRequests, bm.SuccessfulRequests, bm.FailedRequests)
			}
		}
		if m.TotalRequests != m.SuccessfulRequests+m.FailedRequests+m.RateLimitedRequests {
			t.Fatalf("VERIF-GAUGE round %d: total %d != ok %d + failed %d + limited %d while idle", round, m.TotalRequests, m.SuccessfulRequests, m.FailedRequests, m.RateLimitedRequests)
		}
	}
	fmt.Printf("gauge-workload done rounds=%d\n", rounds)
}

// TestVerifDupAdd: several admin clients add a backend under the SAME name at the same instant
// (spin gate). Exactly one of them may be told "created"; the name is then listed exactly once,
// and after one successful remove it is gone and receives nothing (C11: names stay unique and the
// backend set is what the answers say, whatever the interleaving).
func TestVerifDupAdd(t *testing.T) {
	rounds, _ := strconv.Atoi(os.Getenv("VERIF_DUP_ROUNDS"))
	if rounds <= 0 {
		rounds = 300
	}
	be := httptest.NewServer(http.HandlerFunc(func(w http.ResponseWriter, r *http.Request) {}))
	defer be.Close()
	cfg := &config.Config{}
	cfg.LoadBalancer.Strategy = "round_robin"
	cfg.Backends = []config.BackendConfig{{Name: "b0", Address: be.URL, Weight: 1}}
	cfg.AdminAPI = config.AdminAPIConfig{Enabled: true, AuthToken: "tok"}
	lb, err := loadbalancer.NewLoadBalancer(cfg)
	if err != nil {
		t.Fatalf("NewLoadBalancer: %v", err)
	}
	defer lb.Stop()
	admin := adminapi.NewMux(lb, cfg, lb.GetMetricsCollector())
	call := func(method, path, body string) (int, string) {
		r := httptest.NewRequest(method, path, strings.NewReader(body))
		r.RemoteAddr = "192.0.2.7:999"
		r.Header.Set("Authorization", "Bearer tok")
		rec := httptest.NewRecorder()
		admin.ServeHTTP(rec, r)
		return rec.Code, rec.Body.String()
	}
	const twins = 4
	for r := 0; r < rounds; r++ {
		var ready, goFlag, created int32
		var wg sync.WaitGroup
		for k := 0; k < twins; k++ {
			wg.Add(1)
			go func() {
				defer wg.Done()
				atomic.AddInt32(&ready, 1)
				for atomic.LoadInt32(&goFlag) == 0 {
				}
				code, _ := call("POST", "/v1/backends/add", fmt.Sprintf(`{"name":"dup","address":%q,"weight":1}`, be.URL))
				if code == 201 {
					atomic.AddInt32(&created, 1)
				}
			}()
		}
		for atomic.LoadInt32(&ready) < twins {
			runtime.Gosched()
		}
		atomic.StoreInt32(&goFlag, 1)
		wg.Wait()
		_, body := call("GET", "/v1/backends", "")
		listed := strings.Count(body, `"dup"`)
		if created != 1 || listed != 1 {
			t.Fatalf("VERIF-ADMIN round %d: %d simultaneous adds of the name dup: %d answered 201, the name is listed %d times", r, twins, created, listed)
		}
		if code, _ := call("POST", "/v1/backends/remove", `{"name":"dup"}`); code != 200 {
			t.Fatalf("VERIF-ADMIN round %d: remove of dup answered %d", r, code)
		}
		if _, body := call("GET", "/v1/backends", ""); strings.Contains(body, `"dup"`) {
			t.Fatalf("VERIF-ADMIN round %d: dup was removed (200) but is still listed", r)
		}
	}
	fmt.Printf("dup-add done rounds=%d\n", rounds)
}
