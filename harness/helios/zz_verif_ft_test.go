//go:build verif

package main

import (
	"compress/gzip"
	"bytes"
	"bufio"
	"context"
	"fmt"
	"io"
	"net"
	"net/http"
	"runtime"
	"strconv"
	"strings"
	"sync"
	"sync/atomic"
	"time"

	"github.com/0xReLogic/Helios/internal/config"
	"github.com/0xReLogic/Helios/internal/loadbalancer"
)

// C03 fault harness.  One backend that is a raw TCP listener misbehaving on demand, the real
// front end of cmd/helios (buildHandler + createHTTPServer on a listener) with short
// timeouts, and a raw TCP client that can itself misbehave.
//
//	ft new <strategy> <cb 0|1|2> <rl 0|1> <hc 0|1|2|3: none, passive+active, passive only, passive only with handler < backend_read> <plugins 0|1>
//	ft wait <ms>
//	ft req <fault>              one request; fault ∈ ok refuse hang reset short garbage s500 slow stall cau cad cah
//	ft conc <n> <fault,fault,…> n concurrent requests, faults assigned round-robin
//	ft probe                    wait for the unhealthy window / breaker timeout, then a clean request
//
// Timeouts (seconds): server read/write/idle/handler = 2, backend dial/read/idle = 1; passive
// ejection 1 s after 3 failures; breaker opens after 3 failures for 1 s.
type ftEnv struct {
	clientLimit time.Duration // how long the harness client waits for one exchange
	addr   string
	ln     net.Listener
	lnMu   sync.Mutex
	mode   atomic.Value // string
	srv    *http.Server
	front  net.Listener
	lb     *loadbalancer.LoadBalancer
	closed atomic.Bool
	base   int // goroutines right after construction
	hits        atomic.Int64 // client requests (not probes) that reached the backend
	healthDelay atomic.Int64 // ms the backend takes to answer an active probe (still 200)
}

var ft *ftEnv
var ftEpoch = time.Now()

const ftBig = 4 << 20

func (e *ftEnv) serveConn(c net.Conn) {
	defer c.Close()
	mode := e.mode.Load().(string)
	_ = c.SetDeadline(time.Now().Add(20 * time.Second))
	br := bufio.NewReader(c)
	req, err := http.ReadRequest(br)
	if err != nil {
		return
	}
	if req.URL.Path == "/health" {
		if d := e.healthDelay.Load(); d > 0 {
			time.Sleep(time.Duration(d) * time.Millisecond)
		}
		_, _ = io.WriteString(c, "HTTP/1.1 200 OK\r\nContent-Length: 0\r\nConnection: close\r\n\r\n")
		return
	}
	e.hits.Add(1)
	if req.ContentLength != 0 {
		go func() { _, _ = io.Copy(io.Discard, req.Body) }()
	}
	// wait until Helios gives up on this connection (or 8 s, far beyond every timeout)
	waitPeer := func() {
		_ = c.SetReadDeadline(time.Now().Add(8 * time.Second))
		_, _ = br.Peek(1)
	}
	switch mode {
	case "hang", "cah":
		waitPeer()
	case "reset":
		_, _ = io.WriteString(c, "HTTP/1.1 200 OK\r\nContent-Length: 100\r\nContent-Type: text/plain\r\n\r\n0123456789")
		if tc, ok := c.(*net.TCPConn); ok {
			_ = tc.SetLinger(0)
		}
	case "short":
		_, _ = io.WriteString(c, "HTTP/1.1 200 OK\r\nContent-Length: 100\r\nContent-Type: text/plain\r\n\r\n0123456789")
	case "garbage":
		_, _ = io.WriteString(c, "\x00\x01garbage that is not HTTP\r\n\r\n")
	case "i503":
		// an interim response first, then the failure
		_, _ = io.WriteString(c, "HTTP/1.1 103 Early Hints\r\nLink: </s.css>; rel=preload\r\n\r\n")
		_, _ = io.WriteString(c, "HTTP/1.1 503 Service Unavailable\r\nContent-Length: 4\r\nConnection: close\r\n\r\nfail")
	case "s500":
		_, _ = io.WriteString(c, "HTTP/1.1 500 Internal Server Error\r\nContent-Length: 4\r\nConnection: close\r\n\r\nfail")
	case "slow":
		_, _ = io.WriteString(c, "HTTP/1.1 200 OK\r\nContent-Length: 50\r\nContent-Type: text/plain\r\nConnection: close\r\n\r\n")
		for i := 0; i < 5; i++ {
			_, _ = io.WriteString(c, "0123456789")
			time.Sleep(60 * time.Millisecond)
		}
	case "stall":
		_, _ = io.WriteString(c, "HTTP/1.1 200 OK\r\nContent-Length: 100\r\nContent-Type: text/plain\r\n\r\n0123456789")
		waitPeer() // a backend that stops sending mid-body
	case "cad":
		_, _ = io.WriteString(c, fmt.Sprintf("HTTP/1.1 200 OK\r\nContent-Length: %d\r\nContent-Type: application/octet-stream\r\nConnection: close\r\n\r\n", ftBig))
		buf := make([]byte, 64<<10)
		for sent := 0; sent < ftBig; sent += len(buf) {
			if _, err := c.Write(buf); err != nil {
				return
			}
		}
	default: // ok, cau
		_, _ = io.WriteString(c, "HTTP/1.1 200 OK\r\nContent-Length: 2\r\nContent-Type: text/plain\r\nConnection: close\r\n\r\nok")
	}
}

func (e *ftEnv) listen() {
	e.lnMu.Lock()
	defer e.lnMu.Unlock()
	if e.ln != nil {
		return
	}
	var ln net.Listener
	var err error
	for i := 0; i < 50; i++ {
		ln, err = net.Listen("tcp", e.addr)
		if err == nil {
			break
		}
		time.Sleep(20 * time.Millisecond)
	}
	if err != nil {
		return
	}
	e.ln = ln
	go func() {
		for {
			c, err := ln.Accept()
			if err != nil {
				return
			}
			go e.serveConn(c)
		}
	}()
}

func (e *ftEnv) unlisten() {
	e.lnMu.Lock()
	defer e.lnMu.Unlock()
	if e.ln != nil {
		_ = e.ln.Close()
		e.ln = nil
	}
}

func (e *ftEnv) setMode(m string) {
	e.mode.Store(m)
	if m == "refuse" {
		e.unlisten()
	} else {
		e.listen()
	}
}

func (e *ftEnv) close() {
	e.closed.Store(true)
	if e.srv != nil {
		ctx, cancel := context.WithTimeout(context.Background(), 500*time.Millisecond)
		_ = e.srv.Shutdown(ctx)
		cancel()
		_ = e.srv.Close()
	}
	if e.lb != nil {
		e.lb.Stop()
	}
	e.unlisten()
}

var ftCbDefaults bool

func ftNew(strategy string, cb, rl bool, hc int, pl bool) string {
	if ft != nil {
		ft.close()
		ft = nil
	}
	if px != nil {
		px.close()
		px = nil
	}
	e := &ftEnv{clientLimit: 5 * time.Second}
	l0, err := net.Listen("tcp", "127.0.0.1:0")
	if err != nil {
		return "err:listen"
	}
	e.addr = l0.Addr().String()
	_ = l0.Close()
	e.setMode("ok")
	cfg := &config.Config{}
	cfg.LoadBalancer.Strategy = strategy
	cfg.Backends = []config.BackendConfig{{Name: "b0", Address: "http://" + e.addr}}
	cfg.Server.Timeouts = config.TimeoutConfig{Read: 2, Write: 2, Idle: 2, Handler: 2, Shutdown: 1, BackendDial: 1, BackendRead: 1, BackendIdle: 1}
	if cb {
		cfg.CircuitBreaker = config.CircuitBreakerConfig{Enabled: true, MaxRequests: 1, IntervalSeconds: 1, TimeoutSeconds: 1, FailureThreshold: 3, SuccessThreshold: 1}
		if ftCbDefaults {
			cfg.CircuitBreaker.MaxRequests, cfg.CircuitBreaker.SuccessThreshold = 0, 2
		}
	}
	if rl {
		cfg.RateLimit = config.RateLimitConfig{Enabled: true, MaxTokens: 200, RefillRate: 1}
	}
	if hc >= 1 && hc != 4 {
		cfg.HealthChecks.Passive = config.PassiveHealthCheckConfig{Enabled: true, UnhealthyThreshold: 3, UnhealthyTimeout: 1}
	}
	if hc == 3 {
		// passive only, and the end-to-end handler timeout (1 s) fires before the backend read
		// timeout (3 s): a silent backend is given up on by the handler deadline; ejection lasts 2 s
		cfg.Server.Timeouts.Handler, cfg.Server.Timeouts.BackendRead = 1, 3
		cfg.HealthChecks.Passive.UnhealthyTimeout = 2
	}
	if hc == 4 {
		// timeouts closer to the documented defaults (backend_read 30 s, handler 30 s): a silent backend is given up on
		// after 6 s, not after 1 s — exchanges that last seconds, not milliseconds
		cfg.Server.Timeouts = config.TimeoutConfig{Read: 10, Write: 10, Idle: 10, Handler: 8, Shutdown: 1, BackendDial: 1, BackendRead: 6, BackendIdle: 1}
		e.clientLimit = 10 * time.Second
	}
	if hc == 1 { // 2 = passive only: recovery must not depend on active probes
		cfg.HealthChecks.Active = config.ActiveHealthCheckConfig{Enabled: true, Interval: 1, Timeout: 1, Path: "/health"}
	}
	cfg.Logging.RequestID.Enabled = true
	if pl {
		cfg.Plugins.Enabled = true
		cfg.Plugins.Chain = []config.PluginConfig{
			{Name: "logging"},
			{Name: "request-id"},
			{Name: "headers", Config: map[string]interface{}{"set": map[string]interface{}{"X-Via": "helios"}}},
			{Name: "gzip", Config: map[string]interface{}{"level": 5, "min_size": 256, "content_types": []interface{}{"text/plain"}}},
			{Name: "size_limit", Config: map[string]interface{}{"max_request_body": 1 << 20, "max_response_body": 16 << 20}},
		}
	}
	lb, err := loadbalancer.NewLoadBalancer(cfg)
	if err != nil {
		e.close()
		return "err:" + esc(err.Error())
	}
	e.lb = lb
	h, err := buildHandler(cfg, lb)
	if err != nil {
		e.close()
		return "err:" + esc(err.Error())
	}
	e.srv = createHTTPServer(cfg, h)
	ln, err := net.Listen("tcp", "127.0.0.1:0")
	if err != nil {
		e.close()
		return "err:listen"
	}
	e.front = ln
	go func() { _ = e.srv.Serve(ln) }()
	time.Sleep(20 * time.Millisecond)
	e.base = runtime.NumGoroutine()
	ft = e
	return "ok"
}

// one client exchange; returns (ended, class, milliseconds)
var ftRequestKinds = map[string]string{
	"sse":   "Accept: text/event-stream\r\n",
	"ssel":  "Accept: application/json, text/event-stream;q=0.9\r\nCache-Control: no-cache\r\n",
	"wait":  "Prefer: wait=120\r\n",
	"grpc":  "Content-Type: application/grpc\r\nTE: trailers\r\n",
	"range": "Range: bytes=0-\r\n",
	"keep":  "Keep-Alive: timeout=600\r\nX-Accel-Buffering: no\r\n",
	"poll":  "X-Requested-With: XMLHttpRequest\r\nX-Long-Poll: 1\r\n",
}

var ftKindNames = []string{"grpc", "keep", "poll", "range", "sse", "ssel", "wait"}

func (e *ftEnv) exchange(fault string, limit time.Duration) (bool, string, int64) {
	t0 := time.Now()
	c, err := net.DialTimeout("tcp", e.front.Addr().String(), time.Second)
	if err != nil {
		return true, "dial-error", time.Since(t0).Milliseconds()
	}
	defer c.Close()
	_ = c.SetDeadline(t0.Add(limit))
	ended := func(class string) (bool, string, int64) {
		d := time.Since(t0)
		if d >= limit-20*time.Millisecond {
			return false, "client-deadline(" + class + ")", d.Milliseconds()
		}
		return true, class, d.Milliseconds()
	}
	if fault == "cau" {
		// declare a large upload, send part of it, go away
		_, _ = io.WriteString(c, "POST /up HTTP/1.1\r\nHost: verif.test\r\nContent-Length: 100000\r\nConnection: close\r\n\r\n")
		_, _ = c.Write(make([]byte, 1000))
		time.Sleep(30 * time.Millisecond)
		return ended("client-aborted-upload")
	}
	if fault == "cah" {
		// a request whose client gives up while the backend is still silent
		_, _ = io.WriteString(c, "GET /x HTTP/1.1\r\nHost: verif.test\r\nConnection: close\r\nAccept-Encoding: identity\r\n\r\n")
		time.Sleep(150 * time.Millisecond)
		_ = c.Close()
		time.Sleep(80 * time.Millisecond) // Helios notices the client has gone and ends the exchange
		return ended("client-abandoned")
	}
	// <fault>+<kind>: the same fault on a request that says something about itself — what kind of answer it
	// would like, how long it is prepared to wait —; none of it changes what the timeouts promise
	extra := ""
	if i := strings.Index(fault, "+"); i >= 0 {
		extra = ftRequestKinds[fault[i+1:]]
		fault = fault[:i]
	}
	acceptGzip := strings.HasSuffix(fault, "z") // the same fault seen by a client that accepts gzip (the plugin then buffers)
	fault = strings.TrimSuffix(fault, "z")
	if fault == "upg" {
		// a clean request that offers a protocol upgrade (the backend answers a plain 200)
		_, _ = io.WriteString(c, "GET /x HTTP/1.1\r\nHost: verif.test\r\nConnection: Upgrade\r\nUpgrade: h2c\r\nAccept-Encoding: identity\r\n"+extra+"\r\n")
	} else if acceptGzip {
		_, _ = io.WriteString(c, "GET /x HTTP/1.1\r\nHost: verif.test\r\nConnection: close\r\nAccept-Encoding: gzip\r\n"+extra+"\r\n")
	} else {
		_, _ = io.WriteString(c, "GET /x HTTP/1.1\r\nHost: verif.test\r\nConnection: close\r\nAccept-Encoding: identity\r\n"+extra+"\r\n")
	}
	br := bufio.NewReader(c)
	resp, err := http.ReadResponse(br, nil)
	for err == nil && resp.StatusCode >= 100 && resp.StatusCode < 200 && resp.StatusCode != 101 {
		resp, err = http.ReadResponse(br, nil) // interim responses are not the answer
	}
	if err != nil {
		return ended("closed-before-response")
	}
	if fault == "cad" && resp.StatusCode == 200 {
		buf := make([]byte, 1024)
		_, _ = io.ReadFull(resp.Body, buf)
		return ended("client-aborted-download")
	}
	var rb io.Reader = resp.Body
	if resp.Header.Get("Content-Encoding") == "gzip" {
		if zr, zerr := gzip.NewReader(resp.Body); zerr == nil {
			rb = zr
		}
	}
	var got bytes.Buffer
	n, err := io.Copy(&got, io.LimitReader(rb, 1<<16))
	if err == nil {
		var more int64
		more, err = io.Copy(io.Discard, rb)
		n += more
	}
	if err != nil {
		return ended(fmt.Sprintf("%d-then-broken(%d)", resp.StatusCode, n))
	}
	// a complete answer carries the body the backend wrote for this fault, nothing before or after it
	want := map[string]string{"ok": "ok", "cau": "ok", "upg": "ok", "s500": "fail", "i503": "fail", "slow": "01234567890123456789012345678901234567890123456789"}
	wantStatus := map[string]int{"ok": 200, "cau": 200, "upg": 200, "s500": 500, "i503": 503, "slow": 200}
	if wb, known := want[fault]; known && resp.StatusCode == wantStatus[fault] && got.String() != wb {
		return ended(fmt.Sprintf("%d-wrong-body(%d)", resp.StatusCode, n))
	}
	return ended(strconv.Itoa(resp.StatusCode))
}

func ftOp(w []string) string {
	switch {
	case len(w) == 6 && w[0] == "new":
		hc, _ := strconv.Atoi(w[4])
		ftCbDefaults = w[2] == "2" // breaker on, with max_requests left at its default (0) and success_threshold 2
		return ftNew(w[1], w[2] == "1" || w[2] == "2", w[3] == "1", hc, w[5] == "1")
	case len(w) == 1 && w[0] == "close":
		if ft != nil {
			ft.close()
			ft = nil
		}
		return "ok"
	}
	e := ft
	if e == nil {
		return "bad-op"
	}
	switch {
	case len(w) == 2 && w[0] == "wait":
		ms, _ := strconv.Atoi(w[1])
		if ms < 0 || ms > 5000 {
			return "bad-op"
		}
		time.Sleep(time.Duration(ms) * time.Millisecond)
		return "ok"
	case len(w) == 2 && w[0] == "req":
		e.setMode(strings.TrimSuffix(strings.SplitN(w[1], "+", 2)[0], "z"))
		ok, class, ms := e.exchange(w[1], e.clientLimit)
		r := "ended=0"
		if ok {
			r = "ended=1"
		}
		return fmt.Sprintf("%s || fault=%s class=%s ms=%d hits=%d at=%d", r, w[1], class, ms, e.hits.Load(), time.Since(ftEpoch).Milliseconds())
	case len(w) == 3 && w[0] == "conc":
		n, err := strconv.Atoi(w[1])
		if err != nil || n < 1 || n > 64 {
			return "bad-op"
		}
		faults := strings.Split(w[2], ",")
		// the backend mode is global: concurrent requests share the fault of their wave
		var endedN atomic.Int32
		var mu sync.Mutex
		var classes []string
		maxMs := int64(0)
		for wave := 0; wave < len(faults); wave++ {
			e.setMode(strings.SplitN(faults[wave], "+", 2)[0])
			var wg sync.WaitGroup
			for i := 0; i < n; i++ {
				wg.Add(1)
				f := faults[wave]
				if strings.HasSuffix(f, "+*") {
					// every kind of request in one wave
					f = strings.TrimSuffix(f, "*") + ftKindNames[i%len(ftKindNames)]
				}
				go func() {
					defer wg.Done()
					ok, class, ms := e.exchange(f, 6*time.Second)
					if ok {
						endedN.Add(1)
					}
					mu.Lock()
					classes = append(classes, class)
					if ms > maxMs {
						maxMs = ms
					}
					mu.Unlock()
				}()
			}
			wg.Wait()
		}
		hist := map[string]int{}
		for _, c := range classes {
			hist[c]++
		}
		var parts []string
		for k, v := range hist {
			parts = append(parts, fmt.Sprintf("%s:%d", k, v))
		}
		return fmt.Sprintf("ended=%d || classes=%s maxms=%d", endedN.Load(), strings.Join(parts, ","), maxMs)
	case len(w) == 2 && w[0] == "health":
		// ft health <ms>: from now on the backend answers active probes after <ms> (a slow but healthy probe)
		ms, err := strconv.Atoi(w[1])
		if err != nil || ms < 0 || ms > 5000 {
			return "bad-op"
		}
		e.healthDelay.Store(int64(ms))
		return "ok"
	case len(w) == 1 && w[0] == "probe":
		e.setMode("ok")
		time.Sleep(1300 * time.Millisecond) // unhealthy window and breaker timeout are 1 s
		var ok bool
		var class string
		// the first request after an open breaker is the half-open trial; a rejected probe is retried once
		for i := 0; i < 2; i++ {
			ok, class, _ = e.exchange("ok", 5*time.Second)
			if ok && class == "200" {
				break
			}
			time.Sleep(300 * time.Millisecond)
		}
		// quiescence: nothing in flight any more (slow handlers get up to 9 s to drain)
		gauge := int32(-1)
		for i := 0; i < 90; i++ {
			gauge = 0
			for _, b := range e.lb.ListBackends() {
				gauge += b.ActiveConnections
			}
			if gauge == 0 {
				break
			}
			time.Sleep(100 * time.Millisecond)
		}
		m := e.lb.GetMetricsCollector().GetMetrics()
		acct := 0
		if m.TotalRequests == m.SuccessfulRequests+m.FailedRequests+m.RateLimitedRequests {
			acct = 1
		}
		time.Sleep(150 * time.Millisecond)
		g := runtime.NumGoroutine()
		return fmt.Sprintf("probe=%s gauge=%d acct=%d || goroutines=%d base=%d total=%d ok=%d failed=%d limited=%d", class, gauge, acct, g, e.base,
			m.TotalRequests, m.SuccessfulRequests, m.FailedRequests, m.RateLimitedRequests)
	}
	return "bad-op"
}
