//go:build verif

package main

import (
	"compress/gzip"
	"bufio"
	"context"
	"fmt"
	"hash/fnv"
	"io"
	"net"
	"net/http"
	"net/http/httptest"
	"sort"
	"strconv"
	"strings"
	"sync"
	"time"

	"github.com/0xReLogic/Helios/internal/config"
	"github.com/0xReLogic/Helios/internal/loadbalancer"
)

// C01 wire harness.  One scripted real backend (net/http server) and the real front end of
// cmd/helios (buildHandler + createHTTPServer on a real listener).  The same exchange is made
// over a raw TCP connection either directly to the backend or through Helios:
//
//	px new <strategy> <ids: 00|10|01|11> <basepath|->
//	px x <direct|via> <method> <target> <hdrs k=v&k=v|-> <reqlen> <cl|chunked> <script>
//
// script (";"-separated, executed by the backend handler): sh:K:V  ah:K:V (add)  wh:code
// w:len:seed  fl  sl:ms  — as in the `rw` protocol.  The observation line reports what the
// backend's server parsed and what the client read from the socket, in canonical form.

type pxObs struct {
	method, uri, host string
	hdr               http.Header
	cl                int64
	te                []string
	blen              int
	bhash             uint32
}

type pxEnv struct {
	backend *httptest.Server
	srv     *http.Server
	ln      net.Listener
	lb      *loadbalancer.LoadBalancer
	base    string
	ids     string
	mu      sync.Mutex
	script  []string
	obs     chan pxObs
}

var px *pxEnv

func pxBody(n, seed int) []byte {
	b := make([]byte, n)
	for i := range b {
		b[i] = byte((seed + i) % 251)
	}
	return b
}

func (e *pxEnv) close() {
	if e.srv != nil {
		ctx, cancel := context.WithTimeout(context.Background(), time.Second)
		_ = e.srv.Shutdown(ctx)
		cancel()
	}
	if e.lb != nil {
		e.lb.Stop()
	}
	if e.backend != nil {
		e.backend.CloseClientConnections()
		e.backend.Close()
	}
}

// pxFeatures: optional 4th argument of `px new` — letters switching on features that must not
// change what travels (c: circuit breaker, r: rate limiter, p: passive health checks, all with
// thresholds no episode reaches; a: active health checks every second; l: logging plugin; s: size_limit plugin
// with limits no exchange reaches; g: gzip plugin, the client then reports the decoded payload)
var pxFeatures = ""

func pxNew(strategy, ids, base string) string {
	if px != nil {
		px.close()
		px = nil
	}
	e := &pxEnv{obs: make(chan pxObs, 4), ids: ids}
	if base != "-" {
		e.base = unesc(base)
	}
	e.backend = httptest.NewServer(http.HandlerFunc(func(w http.ResponseWriter, r *http.Request) {
		h := fnv.New32a()
		n, _ := io.Copy(h, r.Body)
		o := pxObs{method: r.Method, uri: r.RequestURI, host: r.Host, hdr: r.Header.Clone(), cl: r.ContentLength,
			te: r.TransferEncoding, blen: int(n), bhash: h.Sum32()}
		if strings.HasSuffix(r.URL.Path, "/healthz-verif") {
			return // an active health probe of Helios (feature `a`): 200, not an exchange
		}
		if k := r.Header.Get("X-V-Conc"); k != "" {
			// concurrent exchanges: every client asks for its own body
			f := strings.Split(k, ".")
			if len(f) == 2 {
				sd, _ := strconv.Atoi(f[0])
				n, _ := strconv.Atoi(f[1])
				w.Header().Set("Content-Type", "text/plain; charset=utf-8")
				_, _ = w.Write(pxBody(n, sd))
			}
			return
		}
		select {
		case e.obs <- o:
		default:
		}
		e.mu.Lock()
		script := e.script
		e.mu.Unlock()
		for _, op := range script {
			f := strings.Split(op, ":")
			switch f[0] {
			case "sh":
				if len(f) == 3 {
					w.Header().Set(f[1], unesc(f[2]))
				}
			case "ah":
				if len(f) == 3 {
					w.Header().Add(f[1], unesc(f[2]))
				}
			case "wh":
				c, _ := strconv.Atoi(f[1])
				w.WriteHeader(c)
			case "w":
				n, _ := strconv.Atoi(f[1])
				sd, _ := strconv.Atoi(f[2])
				_, _ = w.Write(pxBody(n, sd))
			case "fl":
				if fl, ok := w.(http.Flusher); ok {
					fl.Flush()
				}
			case "sl":
				ms, _ := strconv.Atoi(f[1])
				time.Sleep(time.Duration(ms) * time.Millisecond)
			case "ab":
				// the backend dies here: its connection is reset, whatever was promised
				panic(http.ErrAbortHandler)
			}
		}
	}))
	cfg := &config.Config{}
	cfg.LoadBalancer.Strategy = strategy
	cfg.Backends = []config.BackendConfig{{Name: "b0", Address: e.backend.URL + e.base}}
	cfg.Logging.RequestID.Enabled = ids[0] == '1'
	cfg.Logging.Trace.Enabled = ids[1] == '1'
	if strings.Contains(pxFeatures, "c") {
		cfg.CircuitBreaker = config.CircuitBreakerConfig{Enabled: true, MaxRequests: 5, IntervalSeconds: 60, TimeoutSeconds: 60,
			FailureThreshold: 1000000, SuccessThreshold: 2}
	}
	if strings.Contains(pxFeatures, "r") {
		cfg.RateLimit = config.RateLimitConfig{Enabled: true, MaxTokens: 1000000, RefillRate: 1}
	}
	if strings.Contains(pxFeatures, "p") {
		cfg.HealthChecks.Passive = config.PassiveHealthCheckConfig{Enabled: true, UnhealthyThreshold: 1000000, UnhealthyTimeout: 30}
	}
	if strings.Contains(pxFeatures, "a") {
		cfg.HealthChecks.Active = config.ActiveHealthCheckConfig{Enabled: true, Interval: 1, Timeout: 1, Path: "/healthz-verif"}
	}
	if strings.Contains(pxFeatures, "l") {
		cfg.Plugins.Enabled = true
		cfg.Plugins.Chain = []config.PluginConfig{{Name: "logging"}}
	}
	if strings.Contains(pxFeatures, "s") {
		// the size_limit plugin with limits no exchange reaches (it wraps the writer and holds the status back)
		cfg.Plugins.Enabled = true
		cfg.Plugins.Chain = append(cfg.Plugins.Chain, config.PluginConfig{Name: "size_limit", Config: map[string]interface{}{
			"max_request_body": 1 << 30, "max_response_body": 1 << 30}})
	}
	if strings.Contains(pxFeatures, "S") {
		// the size_limit plugin with a response limit of 1000 bytes (C14 front-end episodes)
		cfg.Plugins.Enabled = true
		cfg.Plugins.Chain = append(cfg.Plugins.Chain, config.PluginConfig{Name: "size_limit", Config: map[string]interface{}{
			"max_request_body": 1 << 30, "max_response_body": 1000}})
	}
	if strings.Contains(pxFeatures, "g") {
		// the gzip plugin where buildHandler puts it (C15 front-end episodes): the client of this
		// harness then reports the *decoded* payload of a gzip-encoded answer
		cfg.Plugins.Enabled = true
		cfg.Plugins.Chain = append(cfg.Plugins.Chain, config.PluginConfig{Name: "gzip", Config: map[string]interface{}{
			"level": 6, "min_size": 1, "content_types": []interface{}{"text/", "application/json"}}})
	}
	if strings.Contains(pxFeatures, "L") {
		// the logging plugin listed last: inside every plugin listed before it
		cfg.Plugins.Enabled = true
		cfg.Plugins.Chain = append(cfg.Plugins.Chain, config.PluginConfig{Name: "logging"})
	}
	if strings.Contains(pxFeatures, "H") {
		cfg.Plugins.Enabled = true
		cfg.Plugins.Chain = append(cfg.Plugins.Chain, config.PluginConfig{Name: "headers", Config: map[string]interface{}{"set": map[string]interface{}{"X-V-Via": "helios"}}})
	}
	lb, err := loadbalancer.NewLoadBalancer(cfg)
	if err != nil {
		e.close()
		return "err:" + esc(err.Error())
	}
	e.lb = lb
	h, err := buildHandler(cfg, lb)
	if err != nil {
		e.close()
		return "err:" + esc(err.Error())
	}
	e.srv = createHTTPServer(cfg, h)
	ln, err := net.Listen("tcp", "127.0.0.1:0")
	if err != nil {
		e.close()
		return "err:listen"
	}
	e.ln = ln
	go func() { _ = e.srv.Serve(ln) }()
	px = e
	if strings.Contains(pxFeatures, "a") {
		time.Sleep(60 * time.Millisecond) // the first probe round has been made before any exchange
	}
	return "ok"
}

var hopByHop = map[string]bool{"Connection": true, "Keep-Alive": true, "Proxy-Connection": true, "Te": true,
	"Trailer": true, "Transfer-Encoding": true, "Upgrade": true, "Proxy-Authenticate": true, "Proxy-Authorization": true}

func canonHdr(h http.Header, drop map[string]bool) string {
	var keys []string
	for k := range h {
		if hopByHop[k] || drop[k] {
			continue
		}
		keys = append(keys, k)
	}
	sort.Strings(keys)
	var parts []string
	for _, k := range keys {
		for _, v := range h[k] {
			parts = append(parts, esc(k)+"="+esc(v))
		}
	}
	if len(parts) == 0 {
		return "-"
	}
	return strings.Join(parts, "&")
}

func pxExchange(mode, method, target, hdrs string, reqlen int, framing string, script string) string {
	e := px
	if e == nil {
		return "bad-op"
	}
	e.mu.Lock()
	e.script = strings.Split(script, ";")
	e.mu.Unlock()
	for len(e.obs) > 0 {
		<-e.obs
	}
	addr := e.ln.Addr().String()
	tgt := target // raw request-target, no spaces by construction
	if mode == "direct" {
		addr = strings.TrimPrefix(e.backend.URL, "http://")
		// the documented mapping of a backend address with a base path: base and request
		// path are joined with a single slash
		if strings.HasSuffix(e.base, "/") && strings.HasPrefix(tgt, "/") {
			tgt = e.base + tgt[1:]
		} else {
			tgt = e.base + tgt
		}
	}
	c, err := net.DialTimeout("tcp", addr, 2*time.Second)
	if err != nil {
		return "dial-error"
	}
	defer c.Close()
	_ = c.SetDeadline(time.Now().Add(8 * time.Second))
	var req strings.Builder
	fmt.Fprintf(&req, "%s %s HTTP/1.1\r\nHost: verif.test\r\nConnection: close\r\n", method, tgt)
	if hdrs != "-" {
		for _, kv := range strings.Split(hdrs, "&") {
			i := strings.Index(kv, "=")
			if i > 0 {
				fmt.Fprintf(&req, "%s: %s\r\n", unesc(kv[:i]), unesc(kv[i+1:]))
			}
		}
	}
	body := pxBody(reqlen, 7)
	switch framing {
	case "cl":
		if reqlen > 0 || method == "POST" || method == "PUT" || method == "PATCH" {
			fmt.Fprintf(&req, "Content-Length: %d\r\n", reqlen)
		}
		req.WriteString("\r\n")
		req.Write(body)
	case "chunked":
		req.WriteString("Transfer-Encoding: chunked\r\n\r\n")
		for off := 0; off < len(body); off += 1000 {
			end := off + 1000
			if end > len(body) {
				end = len(body)
			}
			fmt.Fprintf(&req, "%x\r\n", end-off)
			req.Write(body[off:end])
			req.WriteString("\r\n")
		}
		req.WriteString("0\r\n\r\n")
	}
	t0 := time.Now()
	if _, err := io.WriteString(c, req.String()); err != nil {
		return "write-error"
	}
	br := bufio.NewReader(c)
	var interim []string
	var resp *http.Response
	for {
		resp, err = http.ReadResponse(br, &http.Request{Method: method})
		if err != nil {
			return "read-error:" + esc(err.Error())
		}
		if resp.StatusCode >= 100 && resp.StatusCode < 200 && resp.StatusCode != 101 {
			interim = append(interim, fmt.Sprintf("%d[%s]", resp.StatusCode, canonHdr(resp.Header, nil)))
			continue
		}
		break
	}
	tHeaders := time.Since(t0)
	// body: record arrival time of the first byte and of the end
	h := fnv.New32a()
	n := 0
	var tFirst time.Duration = -1
	buf := make([]byte, 32<<10)
	var rerr error
	var rbody io.Reader = resp.Body
	if strings.Contains(pxFeatures, "g") && mode != "direct" && resp.Header.Get("Content-Encoding") == "gzip" {
		if zr, zerr := gzip.NewReader(resp.Body); zerr == nil {
			rbody = zr
		} else {
			rerr = zerr
			rbody = strings.NewReader("")
		}
	}
	for {
		k, er := rbody.Read(buf)
		if k > 0 {
			if tFirst < 0 {
				tFirst = time.Since(t0)
			}
			h.Write(buf[:k])
			n += k
		}
		if er != nil {
			if er != io.EOF {
				rerr = er
			}
			break
		}
	}
	tEnd := time.Since(t0)
	// anything after the framed message on a Connection: close exchange is garbage
	extra, _ := io.Copy(io.Discard, br)
	framing2 := "close"
	if len(resp.TransferEncoding) > 0 {
		framing2 = strings.Join(resp.TransferEncoding, ",")
	} else if resp.ContentLength >= 0 {
		framing2 = fmt.Sprintf("cl:%d", resp.ContentLength)
	}
	if cl := resp.Header.Get("Content-Length"); cl != "" && len(resp.TransferEncoding) == 0 && resp.ContentLength < 0 {
		framing2 = "cl-hdr:" + cl
	}
	var ob pxObs
	got := false
	select {
	case ob = <-e.obs:
		got = true
	case <-time.After(300 * time.Millisecond):
	}
	breq := "none"
	cbreq := "none"
	if got {
		breq = fmt.Sprintf("%s|%s|%s|%s|cl:%d|te:%s|%d:%d", ob.method, esc(ob.uri), esc(ob.host), canonHdr(ob.hdr, map[string]bool{"Content-Length": true}),
			ob.cl, strings.Join(ob.te, ","), ob.blen, ob.bhash)
		uri := "*"
		if e.base == "" {
			uri = esc(ob.uri)
		}
		fr := "cl"
		if len(ob.te) > 0 {
			fr = strings.Join(ob.te, ",")
		}
		fwd := "-"
		if v := ob.hdr.Values("X-Forwarded-For"); len(v) > 0 {
			fwd = esc(strings.Join(v, ","))
		}
		cbreq = fmt.Sprintf("%s|%s|%s|%s|%d:%d|fwd:%s", ob.method, uri, xvOnly(ob.hdr), fr, ob.blen, ob.bhash, fwd)
	}
	rdErr := "-"
	short := 0
	if rerr != nil {
		rdErr = "short"
		short = 1
	}
	// request / trace identifiers: what the client sent, what the backend saw, what came back
	sent := http.Header{}
	if hdrs != "-" {
		for _, kv := range strings.Split(hdrs, "&") {
			if i := strings.Index(kv, "="); i > 0 {
				sent.Add(unesc(kv[:i]), strings.Trim(unesc(kv[i+1:]), " \t"))
			}
		}
	}
	idc := func(on bool, name string) string {
		r, hasR := resp.Header[name]
		b, hasB := ob.hdr[name]
		// a backend that echoes the identifier makes it appear twice on the response, with one value: the client
		// still gets that value and no other (the property speaks of values, not of the number of header lines)
		for len(r) > 1 && r[len(r)-1] == r[0] {
			r = r[:len(r)-1]
		}
		if mode == "direct" || !on {
			// (a backend whose script sets a header of that name itself: an ordinary response header)
			if hasR && !strings.Contains(strings.ToLower(script), "sh:"+strings.ToLower(name)+":") {
				return "UNEXPECTED-resp"
			}
			return "off"
		}
		if !got {
			if hasR {
				return "resp-only"
			}
			return "MISSING"
		}
		switch {
		case !hasR && !hasB:
			return "MISSING"
		case !hasR:
			return "MISSING-resp"
		case !hasB:
			return "MISSING-backend"
		case r[0] != b[0]:
			// (an identifier header the client sent on several lines reaches the backend line by line — that is
			// transparency —; the identifier is its first value, and that is what comes back)
			return "MISMATCH"
		}
		// further values under the identifier's name are tolerated only when the backend's script put them there
		own := strings.Contains(strings.ToLower(script), "sh:"+strings.ToLower(name)+":")
		if s := sent.Get(name); strings.TrimSpace(s) != "" {
			if r[0] == s && (len(r) == 1 || own) {
				return "sup"
			}
			return "CHANGED"
		}
		if genRe.MatchString(r[0]) && (len(r) == 1 || own) {
			return "gen"
		}
		return "other"
	}
	var icodes []string
	for _, it := range interim {
		icodes = append(icodes, it[:3])
	}
	canonLine := fmt.Sprintf("px status=%d xv=%s body=%d:%d short=%d interim=%s ids=%s/%s breq=%s",
		resp.StatusCode, xvOnly(resp.Header), n, h.Sum32(), short, strings.Join(append([]string{"-"}, icodes...), ","),
		idc(e.ids[0] == '1', "X-Request-Id"), idc(e.ids[1] == '1', "X-Trace-Id"), cbreq)
	return canonLine + fmt.Sprintf(" || breq=%s status=%d proto=%s hdr=%s framing=%s body=%d:%d rderr=%s extra=%d interim=%s tH=%d tF=%d tE=%d",
		breq, resp.StatusCode, resp.Proto, canonHdr(resp.Header, map[string]bool{"Content-Length": true, "Date": true}), framing2, n, h.Sum32(), rdErr, extra,
		strings.Join(append([]string{"-"}, interim...), ","), tHeaders.Milliseconds(), tFirst.Milliseconds(), tEnd.Milliseconds())
}

// xvOnly: the X-V-* headers (single- or multi-valued), canonical
func xvOnly(h http.Header) string {
	x := http.Header{}
	for k, v := range h {
		if strings.HasPrefix(k, "X-V-") {
			x[k] = v
		}
	}
	return canonHdr(x, nil)
}

// pxConc: n clients at once through Helios, each asking the backend for a body only it expects;
// every byte each client reads must be its own (what travels does not depend on who else is served)
func pxConc(n, l int) string {
	e := px
	if e == nil {
		return "bad-op"
	}
	addr := e.ln.Addr().String()
	errs := make([]string, n)
	var wg sync.WaitGroup
	for k := 0; k < n; k++ {
		wg.Add(1)
		go func(k int) {
			defer wg.Done()
			c, err := net.DialTimeout("tcp", addr, 2*time.Second)
			if err != nil {
				errs[k] = "dial"
				return
			}
			defer c.Close()
			_ = c.SetDeadline(time.Now().Add(20 * time.Second))
			ae := ""
			if strings.Contains(pxFeatures, "g") {
				ae = "Accept-Encoding: gzip\r\n" // with the gzip plugin in the chain the concurrent clients accept it (and decode)
			}
			fmt.Fprintf(c, "GET /conc HTTP/1.1\r\nHost: verif.test\r\nConnection: close\r\n%sX-V-Conc: %d.%d\r\n\r\n", ae, k+1, l)
			resp, err := http.ReadResponse(bufio.NewReader(c), nil)
			if err != nil {
				errs[k] = "read:" + esc(err.Error())
				return
			}
			var rb io.Reader = resp.Body
			if resp.Header.Get("Content-Encoding") == "gzip" {
				zr, zerr := gzip.NewReader(resp.Body)
				if zerr != nil {
					errs[k] = "gzip:" + esc(zerr.Error())
					return
				}
				rb = zr
			}
			body, err := io.ReadAll(rb)
			resp.Body.Close()
			want := pxBody(l, k+1)
			if err != nil || resp.StatusCode != 200 || len(body) != len(want) {
				errs[k] = fmt.Sprintf("status=%d len=%d want=%d err=%v", resp.StatusCode, len(body), len(want), err != nil)
				return
			}
			for i := range body {
				if body[i] != want[i] {
					errs[k] = fmt.Sprintf("byte %d of client %d's body is %d, the backend sent %d", i, k+1, body[i], want[i])
					return
				}
			}
		}(k)
	}
	wg.Wait()
	for k, s := range errs {
		if s != "" {
			return fmt.Sprintf("conc MIXED client=%d %s", k+1, strings.ReplaceAll(s, " ", "_"))
		}
	}
	return fmt.Sprintf("conc ok %d", n)
}

func pxOp(w []string) string {
	switch {
	case len(w) == 4 && w[0] == "new":
		pxFeatures = ""
		return pxNew(w[1], w[2], w[3])
	case len(w) == 5 && w[0] == "new":
		pxFeatures = w[4]
		return pxNew(w[1], w[2], w[3])
	case len(w) == 3 && w[0] == "conc":
		n, err1 := strconv.Atoi(w[1])
		l, err2 := strconv.Atoi(w[2])
		if err1 != nil || err2 != nil || n < 1 || n > 64 || l < 0 || l > 64<<20 {
			return "bad-op"
		}
		return pxConc(n, l)
	case len(w) == 8 && w[0] == "x":
		n, err := strconv.Atoi(w[5])
		if err != nil {
			return "bad-op"
		}
		return pxExchange(w[1], w[2], w[3], w[4], n, w[6], w[7])
	case len(w) == 1 && w[0] == "close":
		if px != nil {
			px.close()
			px = nil
		}
		return "ok"
	}
	return "bad-op"
}
