//go:build verif

package main

import (
	"reflect"
	"sync/atomic"
	"strconv"
	"net"
	"io"
	"bufio"
	"fmt"
	"net/http"
	"net/http/httptest"
	"net/url"
	"os"
	"regexp"
	"strings"
	"sync"
	"testing"
	"time"

	"github.com/gorilla/websocket"

	"github.com/0xReLogic/Helios/internal/config"
	"gopkg.in/yaml.v3"
	"github.com/0xReLogic/Helios/internal/loadbalancer"
	"github.com/0xReLogic/Helios/internal/logging"
)

func unesc(s string) string {
	if s == "-" {
		return ""
	}
	u, err := url.PathUnescape(s)
	if err != nil {
		return s
	}
	return u
}

func esc(s string) string {
	if s == "" {
		return "-"
	}
	return url.PathEscape(s)
}

var genRe = regexp.MustCompile(`^(req|trace)_[0-9a-f]{24}$`)

// canonical form of an ID value: generated ones are replaced by a tag (their uniqueness is
// checked separately), supplied ones are shown as they are
func canon(v string) string {
	if genRe.MatchString(v) {
		return "GEN:" + strings.SplitN(v, "_", 2)[0]
	}
	return esc(v)
}

var quiet sync.Once

// TestVerifDriver: `id …` lines against the real handler composition of cmd/helios
// (plugins -> RequestContextMiddleware -> LoadBalancer) with one real backend that reports
// the ID headers it received.
func TestVerifDriver(t *testing.T) {
	quiet.Do(func() { logging.Init(config.LoggingConfig{Level: "fatal", Format: "json"}) })
	in, err := os.Open(os.Getenv("VERIF_OPS"))
	if err != nil {
		t.Fatal(err)
	}
	defer in.Close()
	outF, err := os.Create(os.Getenv("VERIF_OUT"))
	if err != nil {
		t.Fatal(err)
	}
	defer outF.Close()
	out := bufio.NewWriter(outF)
	defer out.Flush()

	var mu sync.Mutex
	seen := map[string]string{}
	contacted := false
	backend := httptest.NewServer(http.HandlerFunc(func(w http.ResponseWriter, r *http.Request) {
		mu.Lock()
		contacted = true
		for k, v := range r.Header {
			seen[k] = strings.Join(v, ",")
		}
		mu.Unlock()
		if own := r.Header.Get("X-V-Own"); own != "" {
			// a backend that stamps its answers with identifiers of its own under the same names
			for _, nm := range strings.Split(own, ",") {
				w.Header().Set(nm, "backend-own-id")
			}
		}
		w.WriteHeader(200)
	}))
	defer backend.Close()

	var handler http.Handler
	var lb *loadbalancer.LoadBalancer
	var names [2]string
	var idOn [2]bool
	allIDs := map[string]bool{}
	dups := 0
	sc := bufio.NewScanner(in)
	sc.Buffer(make([]byte, 1<<20), 1<<20)
	for sc.Scan() {
		line := sc.Text()
		if line == "" || strings.HasPrefix(line, "#") {
			continue
		}
		w := strings.Fields(line)
		res := "bad-op"
		// an operation still running after 120 s is wedged: say so and stop instead of sitting out
		// the test timeout (the main goroutine is stuck, so nobody else writes to `out`)
		wedged := time.AfterFunc(120*time.Second, func() {
			fmt.Fprintln(out, "hang")
			out.Flush()
			os.Exit(3)
		})
		if len(w) >= 2 && w[0] == "ft" {
			res = ftOp(w[1:])
		} else if len(w) >= 2 && w[0] == "px" {
			res = pxOp(w[1:])
		} else if len(w) == 4 && w[0] == "srvwire" {
			// srvwire <read> <write> <idle> : the front server's timeouts as createHTTPServer sets
			// them from an accepted configuration (ns)
			cfg := &config.Config{}
			cfg.Server.Port = 8080
			cfg.Backends = []config.BackendConfig{{Name: "s1", Address: "http://127.0.0.1:9", Weight: 1}}
			cfg.Server.Timeouts.Read, _ = strconv.Atoi(w[1])
			cfg.Server.Timeouts.Write, _ = strconv.Atoi(w[2])
			cfg.Server.Timeouts.Idle, _ = strconv.Atoi(w[3])
			if err := cfg.Validate(); err != nil {
				res = "rejected"
			} else {
				srv := createHTTPServer(cfg, http.NotFoundHandler())
				res = fmt.Sprintf("eff r=%d w=%d i=%d", int64(srv.ReadTimeout), int64(srv.WriteTimeout), int64(srv.IdleTimeout))
			}
		} else if len(w) == 3 && w[0] == "cfgval" {
			res = cfgValues(w[1])
		} else if len(w) == 2 && w[0] == "cfgfid" {
			res = cfgFidelity(w[1])
		} else if len(w) == 6 && w[0] == "aff" {
			nb, _ := strconv.Atoi(w[2])
			nreq, _ := strconv.Atoi(w[5])
			res = frontAffinity(w[1], nb, w[3] == "1", w[4] == "1", nreq)
		} else if len(w) == 2 && w[0] == "startup" {
			res = startupKeepsConfig(w[1])
		} else if len(w) == 2 && w[0] == "gs" {
			ms, _ := strconv.Atoi(w[1])
			res = gracefulScenario(ms)
		} else if len(w) == 4 && w[0] == "wshold" {
			hs, _ := strconv.Atoi(w[2])
			hm, _ := strconv.Atoi(w[3])
			res = wsHold(w[1], hs, hm)
		} else if len(w) == 3 && w[0] == "ws" {
			res = wsSession(w[1], w[2])
		} else if len(w) >= 2 && w[0] == "cfgserve" {
			res = loadStartServe(w[1], backend.URL)
		} else if len(w) >= 2 && (w[0] == "cfg" || w[0] == "cfgfile") {
			res = loadAndStart(w[1])
		} else if len(w) >= 2 && w[0] == "id" {
			switch w[1] {
			case "new":
				// id new <reqOn> <reqHdr|-> <traceOn> <traceHdr|-> <plugins: none|auth|sl|auth+sl> <rl>
				if len(w) == 8 {
					if lb != nil {
						lb.Stop()
					}
					cfg := &config.Config{}
					cfg.LoadBalancer.Strategy = "round_robin"
					cfg.Backends = []config.BackendConfig{{Name: "b0", Address: backend.URL}}
					cfg.Logging.RequestID = config.RequestIDConfig{Enabled: w[2] == "1", Header: unesc(w[3])}
					cfg.Logging.Trace = config.TraceConfig{Enabled: w[4] == "1", Header: unesc(w[5])}
					names = [2]string{logging.RequestHeaderName(cfg.Logging), logging.TraceHeaderName(cfg.Logging)}
					idOn = [2]bool{w[2] == "1", w[4] == "1"}
					if w[6] != "none" {
						cfg.Plugins.Enabled = true
						for _, p := range strings.Split(w[6], "+") {
							switch p {
							case "auth":
								cfg.Plugins.Chain = append(cfg.Plugins.Chain, config.PluginConfig{Name: "custom-auth", Config: map[string]interface{}{"apiKey": "k1"}})
							case "sl":
								cfg.Plugins.Chain = append(cfg.Plugins.Chain, config.PluginConfig{Name: "size_limit", Config: map[string]interface{}{"max_request_body": 10}})
							case "rid":
								cfg.Plugins.Chain = append(cfg.Plugins.Chain, config.PluginConfig{Name: "request-id"})
							}
						}
					}
					if w[7] == "1" {
						cfg.RateLimit = config.RateLimitConfig{Enabled: true, MaxTokens: 2, RefillRate: 3600}
					}
					var e error
					lb, e = loadbalancer.NewLoadBalancer(cfg)
					if e == nil {
						handler, e = buildHandler(cfg, lb)
					}
					if e == nil {
						res = "ok " + esc(http.CanonicalHeaderKey(names[0])) + " " + esc(http.CanonicalHeaderKey(names[1]))
					} else {
						res = "err"
					}
				}
			case "burst":
				// id burst <n> <workers>: n requests without identifiers, from <workers> goroutines
				// at once; every generated request / trace identifier must be distinct
				if len(w) == 4 && handler != nil {
					n, _ := strconv.Atoi(w[2])
					workers, _ := strconv.Atoi(w[3])
					if n < 1 || n > 200000 || workers < 1 || workers > 64 {
						break
					}
					var bmu sync.Mutex
					seenIDs := map[string]int{}
					var next int64
					var wg sync.WaitGroup
					for g := 0; g < workers; g++ {
						wg.Add(1)
						go func() {
							defer wg.Done()
							local := []string{}
							for atomic.AddInt64(&next, 1) <= int64(n) {
								req := httptest.NewRequest("GET", "/p", nil)
								req.RemoteAddr = "10.0.0.9:1234"
								rec := httptest.NewRecorder()
								handler.ServeHTTP(rec, req)
								for _, nm := range names {
									if v := rec.Header().Get(nm); v != "" {
										local = append(local, nm+"="+v)
									}
								}
							}
							bmu.Lock()
							for _, v := range local {
								seenIDs[v]++
							}
							bmu.Unlock()
						}()
					}
					wg.Wait()
					d := 0
					for _, c := range seenIDs {
						if c > 1 {
							d += c - 1
						}
					}
					res = fmt.Sprintf("burst ids=%d dups=%d", len(seenIDs)+d, d)
				}
			case "req":
				// id req <rid|-|none> <trace|-|none> <key|-> <bodylen> <eject 0|1> [upg] : with `upg` the
				// request offers a protocol upgrade that the backend declines
				if (len(w) == 7 || (len(w) == 8 && (w[7] == "upg" || w[7] == "own" || w[7] == "ws"))) && handler != nil {
					mu.Lock()
					seen = map[string]string{}
					contacted = false
					mu.Unlock()
					var body *strings.Reader
					n := 0
					fmt.Sscan(w[5], &n)
					body = strings.NewReader(strings.Repeat("x", n))
					req := httptest.NewRequest("POST", "/p", body)
					req.RemoteAddr = "10.0.0.9:1234"
					if w[2] != "none" {
						// as on the wire: SP / HTAB around a header value never reach a handler
						req.Header[http.CanonicalHeaderKey(names[0])] = []string{strings.Trim(unesc(w[2]), " \t")}
					}
					if w[3] != "none" {
						req.Header[http.CanonicalHeaderKey(names[1])] = []string{strings.Trim(unesc(w[3]), " \t")}
					}
					if k := unesc(w[4]); k != "" {
						req.Header.Set("X-API-Key", k)
					}
					if len(w) == 8 && w[7] == "upg" {
						req.Header.Set("Connection", "Upgrade")
						req.Header.Set("Upgrade", "h2c")
					}
					if len(w) == 8 && w[7] == "ws" {
						// a complete WebSocket opening handshake (a GET; whatever body length it declares is a declared
						// body), which the plain backend declines
						req.Method = "GET"
						req.Header.Set("Connection", "keep-alive, Upgrade")
						req.Header.Set("Upgrade", "websocket")
						req.Header.Set("Sec-WebSocket-Key", "dGhlIHNhbXBsZSBub25jZQ==")
						req.Header.Set("Sec-WebSocket-Version", "13")
					}
					if len(w) == 8 && w[7] == "own" {
						// (only under the names of enabled features: a disabled feature's header is an
						// ordinary response header and passes through untouched)
						var own []string
						for i, nm := range names {
							if idOn[i] {
								own = append(own, nm)
							}
						}
						if len(own) > 0 {
							req.Header.Set("X-V-Own", strings.Join(own, ","))
						}
					}
					if w[6] == "1" {
						for _, b := range lbBackends(lb) {
							lb.MarkBackendUnhealthy(b, 1<<40)
						}
					}
					rec := httptest.NewRecorder()
					handler.ServeHTTP(rec, req)
					mu.Lock()
					var parts []string
					for i, nm := range names {
						key := http.CanonicalHeaderKey(nm)
						cv, has := rec.Header()[key]
						if has && len(cv) > 1 && req.Header.Get("X-V-Own") != "" {
							// the backend stamped the answer with an identifier of its own under the same
							// name: the client reads the first value (Header.Get), which must be the
							// propagated one — further values are the backend's business
							cv = cv[:1]
						}
						c := "none"
						if has {
							c = canon(strings.Join(cv, ","))
							if genRe.MatchString(cv[0]) {
								if allIDs[cv[0]] {
									dups++
								}
								allIDs[cv[0]] = true
							}
						}
						rel := "nobackend"
						if contacted {
							sv, ok := seen[key]
							switch {
							case !ok && !has:
								rel = "both-absent"
							case ok && has && sv == strings.Join(cv, ","):
								rel = "same"
							case ok && !has:
								rel = "backend-only:" + canon(sv)
							default:
								rel = "DIFF:" + canon(sv)
							}
						}
						parts = append(parts, fmt.Sprintf("h%d=%s/%s", i, c, rel))
					}
					mu.Unlock()
					res = fmt.Sprintf("status=%d %s dups=%d", rec.Code, strings.Join(parts, " "), dups)
				}
			}
		}
		wedged.Stop()
		fmt.Fprintln(out, res)
	}
}

func lbBackends(lb *loadbalancer.LoadBalancer) []*loadbalancer.Backend {
	var out []*loadbalancer.Backend
	seen := map[*loadbalancer.Backend]bool{}
	for i := 0; i < 4; i++ {
		b := lb.NextBackend(httptest.NewRequest("GET", "/", nil))
		if b != nil && !seen[b] {
			seen[b] = true
			out = append(out, b)
		}
	}
	return out
}

var cfgRules = []struct {
	sub string
	id  int
}{
	{"no backend servers configured", 1}, {": name is required", 2}, {": address is required", 3}, {"weight must be non-negative", 4},
	{"server port must be", 5}, {"cert file not specified", 6}, {"key file not specified", 7},
	{"server read timeout", 8}, {"server write timeout", 9}, {"server idle timeout", 10}, {"server handler timeout", 11},
	{"server shutdown timeout", 12}, {"backend dial timeout", 13}, {"backend read timeout", 14}, {"backend idle timeout", 15},
	{"invalid load balancer strategy", 16}, {"max_idle must be non-negative", 17}, {"max_active must be non-negative", 18},
	{"must be less than or equal to max_active", 19}, {"idle_timeout_seconds must be", 20},
	{"active health check interval must be", 21}, {"active health check timeout must be positive", 22},
	{"must be less than interval", 23}, {"active health check path is required", 24},
	{"unhealthy threshold must be", 25}, {"unhealthy timeout must be", 26},
	{"max tokens must be", 27}, {"refill rate must be", 28},
	{"failure threshold must be", 29}, {"success threshold must be positive", 30}, {"circuit breaker timeout must be", 31},
	{"circuit breaker interval must be", 32}, {"max requests must be non-negative", 33}, {"must not exceed max requests", 34},
	{"metrics port must be", 35}, {"metrics path is required", 36}, {"metrics path must start with", 58}, {"reserved for the health endpoint", 59}, {"admin API port must be", 37},
	{"invalid log level", 38}, {"invalid log format", 39},
}

// values that would wrap in a later conversion (seconds -> time.Duration, breaker counts -> uint32)
var cfgRangeRules = []struct {
	sub string
	id  int
}{
	{"server read timeout", 40}, {"server write timeout", 41}, {"server idle timeout", 42}, {"server handler timeout", 43},
	{"server shutdown timeout", 44}, {"backend dial timeout", 45}, {"backend read timeout", 46}, {"backend idle timeout", 47},
	{"idle_timeout_seconds", 48}, {"active health check interval", 49}, {"active health check timeout", 50},
	{"unhealthy timeout", 51}, {"refill rate", 52}, {"circuit breaker interval", 53}, {"circuit breaker timeout", 54},
	{"max requests", 55}, {"failure threshold", 56}, {"success threshold", 57},
}

// loadAndStart: LoadConfig, then everything main() constructs before listening.
func loadAndStart(path string) (res string) {
	defer func() {
		if r := recover(); r != nil {
			res = "PANIC:" + strings.ReplaceAll(fmt.Sprint(r), " ", "_")
		}
	}()
	cfg, err := config.LoadConfig(path)
	if err != nil {
		msg := err.Error()
		if strings.Contains(msg, "error parsing config file") {
			return "load=err:yaml"
		}
		if strings.Contains(msg, "is too large") {
			for _, r := range cfgRangeRules {
				if strings.Contains(msg, r.sub) {
					return fmt.Sprintf("load=err:%d", r.id)
				}
			}
		}
		for _, r := range cfgRules {
			if strings.Contains(msg, r.sub) {
				return fmt.Sprintf("load=err:%d", r.id)
			}
		}
		return "load=err:?" + strings.ReplaceAll(msg, " ", "_")
	}
	lb, err := loadbalancer.NewLoadBalancer(cfg)
	if err != nil {
		return "load=ok start=err"
	}
	defer lb.Stop()
	h, err := buildHandler(cfg, lb)
	if err != nil || h == nil {
		return "load=ok start=err"
	}
	srv := createHTTPServer(cfg, h)
	if srv == nil || srv.Handler == nil {
		return "load=ok start=err"
	}
	return "load=ok start=ok"
}

// loadStartServe: the configuration file (its backend addresses are the placeholder @BACKEND@, replaced
// by a live test backend) goes through LoadConfig, NewLoadBalancer, buildHandler and
// createHTTPServer as in main(); when all of that succeeds one GET is sent through the server's
// handler over a real connection: an accepted configuration that starts must serve.
func loadStartServe(path, backendURL string) (res string) {
	defer func() {
		if r := recover(); r != nil {
			res = "PANIC:" + strings.ReplaceAll(fmt.Sprint(r), " ", "_")
		}
	}()
	raw, err := os.ReadFile(path)
	if err != nil {
		return "bad-op"
	}
	live := path + ".live"
	freePort := func() string {
		l, err := net.Listen("tcp", "127.0.0.1:0")
		if err != nil {
			return "1"
		}
		defer l.Close()
		return strconv.Itoa(l.Addr().(*net.TCPAddr).Port)
	}
	text := strings.ReplaceAll(string(raw), "@BACKEND@", backendURL)
	text = strings.ReplaceAll(text, "@MPORT@", freePort())
	text = strings.ReplaceAll(text, "@APORT@", freePort())
	if err := os.WriteFile(live, []byte(text), 0o600); err != nil {
		return "bad-op"
	}
	defer os.Remove(live)
	cfg, err := config.LoadConfig(live)
	if err != nil {
		return "load=err:" + strings.ReplaceAll(err.Error(), " ", "_")
	}
	lb, err := loadbalancer.NewLoadBalancer(cfg)
	if err != nil {
		return "load=ok start=err:" + strings.ReplaceAll(err.Error(), " ", "_")
	}
	defer lb.Stop()
	h, err := buildHandler(cfg, lb)
	if err != nil {
		return "load=ok start=err:" + strings.ReplaceAll(err.Error(), " ", "_")
	}
	srv := createHTTPServer(cfg, h)
	if srv == nil || srv.Handler == nil {
		return "load=ok start=err:"
	}
	// the ancillary servers, as main() starts them (they keep running until the harness exits)
	side := ""
	setupMetricsServer(cfg, lb)
	setupAdminAPIServer(cfg, lb)
	fetch := func(url string) string {
		for i := 0; i < 40; i++ {
			resp, err := (&http.Client{Timeout: 2 * time.Second}).Get(url)
			if err == nil {
				resp.Body.Close()
				return strconv.Itoa(resp.StatusCode)
			}
			time.Sleep(25 * time.Millisecond)
		}
		return "unreachable"
	}
	if cfg.Metrics.Enabled {
		mp := cfg.Metrics.Path
		if mp == "" {
			mp = "/metrics"
		}
		side += " metrics=" + fetch(fmt.Sprintf("http://127.0.0.1:%d%s", cfg.Metrics.Port, mp)) + " mhealth=" + fetch(fmt.Sprintf("http://127.0.0.1:%d/health", cfg.Metrics.Port))
	}
	if cfg.AdminAPI.Enabled {
		side += " admin=" + fetch(fmt.Sprintf("http://127.0.0.1:%d/v1/health", cfg.AdminAPI.Port))
	}
	front := httptest.NewServer(srv.Handler)
	defer front.Close()
	req, _ := http.NewRequest("GET", front.URL+"/", nil)
	resp, err := (&http.Client{Timeout: 5 * time.Second}).Do(req)
	if err != nil {
		return "load=ok start=ok serve=err"
	}
	defer resp.Body.Close()
	body, _ := io.ReadAll(resp.Body)
	ids := ""
	if cfg.Logging.RequestID.Enabled && resp.Header.Get(logging.RequestHeaderName(cfg.Logging)) == "" {
		ids += " no-request-id"
	}
	if cfg.Logging.Trace.Enabled && resp.Header.Get(logging.TraceHeaderName(cfg.Logging)) == "" {
		ids += " no-trace-id"
	}
	return fmt.Sprintf("load=ok start=ok serve=%d body=%d%s%s", resp.StatusCode, len(body), ids, side)
}

// wsSession: a WebSocket session through the real handler composition with the given plugin
// chain; every message (sizes given, text/binary alternating) must come back unmodified and
// in order from the echo backend, and closing the client side must close the backend side.
// wsHold: a WebSocket session that outlives the end-to-end handler timeout. The handshake is
// written by hand so that the Connection header can be any of the token lists browsers send
// ("keep-alive, Upgrade"); after <holdMs> of silence one text message must still be echoed.
func wsHold(variant string, handlerSec, holdMs int) string {
	connHdr := map[string]string{"upgrade": "Upgrade", "lower": "upgrade", "ka-upgrade": "keep-alive, Upgrade",
		"upgrade-ka": "Upgrade, keep-alive"}[variant]
	if connHdr == "" {
		return "bad-op"
	}
	up := websocket.Upgrader{}
	backend := httptest.NewServer(http.HandlerFunc(func(w http.ResponseWriter, r *http.Request) {
		c, err := up.Upgrade(w, r, nil)
		if err != nil {
			return
		}
		defer c.Close()
		for {
			mt, msg, err := c.ReadMessage()
			if err != nil {
				return
			}
			if err := c.WriteMessage(mt, msg); err != nil {
				return
			}
		}
	}))
	defer backend.Close()
	cfg := &config.Config{}
	cfg.LoadBalancer.Strategy = "round_robin"
	cfg.Backends = []config.BackendConfig{{Name: "b0", Address: backend.URL}}
	cfg.Server.Timeouts.Handler = handlerSec
	cfg.Plugins.Enabled = true
	cfg.Plugins.Chain = []config.PluginConfig{{Name: "logging"}, {Name: "size_limit", Config: map[string]interface{}{}}}
	lb, err := loadbalancer.NewLoadBalancer(cfg)
	if err != nil {
		return "ws setup-error"
	}
	defer lb.Stop()
	h, err := buildHandler(cfg, lb)
	if err != nil {
		return "ws setup-error"
	}
	front := httptest.NewServer(h)
	defer front.Close()
	c, err := net.DialTimeout("tcp", front.Listener.Addr().String(), time.Second)
	if err != nil {
		return "ws dial-failed"
	}
	defer c.Close()
	_ = c.SetDeadline(time.Now().Add(time.Duration(holdMs)*time.Millisecond + 4*time.Second))
	fmt.Fprintf(c, "GET /ws HTTP/1.1\r\nHost: verif.test\r\nUpgrade: websocket\r\nConnection: %s\r\nSec-WebSocket-Key: dGhlIHNhbXBsZSBub25jZQ==\r\nSec-WebSocket-Version: 13\r\n\r\n", connHdr)
	br := bufio.NewReader(c)
	resp, err := http.ReadResponse(br, nil)
	if err != nil || resp.StatusCode != 101 {
		code := 0
		if resp != nil {
			code = resp.StatusCode
		}
		return fmt.Sprintf("ws handshake-failed status=%d", code)
	}
	time.Sleep(time.Duration(holdMs) * time.Millisecond)
	payload := []byte("still here")
	frame := []byte{0x81, 0x80 | byte(len(payload)), 1, 2, 3, 4}
	for i, b := range payload {
		frame = append(frame, b^frame[2+i%4])
	}
	if _, err := c.Write(frame); err != nil {
		return "ws write-failed after hold"
	}
	head := make([]byte, 2)
	if _, err := io.ReadFull(br, head); err != nil {
		return "ws closed-by-proxy after hold: " + strings.ReplaceAll(err.Error(), " ", "_")
	}
	got := make([]byte, int(head[1]&0x7f))
	if _, err := io.ReadFull(br, got); err != nil || string(got) != string(payload) {
		return "ws echo mismatch after hold"
	}
	return "ws ok 1"
}

func wsSession(chain, sizes string) string {
	up := websocket.Upgrader{}
	backendClosed := make(chan struct{})
	backend := httptest.NewServer(http.HandlerFunc(func(w http.ResponseWriter, r *http.Request) {
		c, err := up.Upgrade(w, r, nil)
		if err != nil {
			return
		}
		defer close(backendClosed)
		defer c.Close()
		for {
			mt, msg, err := c.ReadMessage()
			if err != nil {
				return
			}
			// echo, and push one unsolicited message after each to interleave directions
			if err := c.WriteMessage(mt, msg); err != nil {
				return
			}
			if err := c.WriteMessage(websocket.TextMessage, []byte(fmt.Sprintf("ack:%d", len(msg)))); err != nil {
				return
			}
		}
	}))
	defer backend.Close()
	cfg := &config.Config{}
	cfg.LoadBalancer.Strategy = "round_robin"
	cfg.Backends = []config.BackendConfig{{Name: "b0", Address: backend.URL}}
	cfg.Logging.RequestID.Enabled = true
	if chain != "none" {
		cfg.Plugins.Enabled = true
		for _, p := range strings.Split(chain, "+") {
			switch p {
			case "log":
				cfg.Plugins.Chain = append(cfg.Plugins.Chain, config.PluginConfig{Name: "logging"})
			case "sl":
				cfg.Plugins.Chain = append(cfg.Plugins.Chain, config.PluginConfig{Name: "size_limit", Config: map[string]interface{}{}})
			case "gz":
				cfg.Plugins.Chain = append(cfg.Plugins.Chain, config.PluginConfig{Name: "gzip", Config: map[string]interface{}{"level": 5, "min_size": 10, "content_types": []interface{}{"text/"}}})
			case "hdr":
				cfg.Plugins.Chain = append(cfg.Plugins.Chain, config.PluginConfig{Name: "headers", Config: map[string]interface{}{"set": map[string]interface{}{"X-App": "Helios"}}})
			case "rid":
				cfg.Plugins.Chain = append(cfg.Plugins.Chain, config.PluginConfig{Name: "request-id"})
			}
		}
	}
	lb, err := loadbalancer.NewLoadBalancer(cfg)
	if err != nil {
		return "ws setup-error"
	}
	defer lb.Stop()
	h, err := buildHandler(cfg, lb)
	if err != nil {
		return "ws setup-error"
	}
	front := httptest.NewServer(h)
	defer front.Close()
	hdr := http.Header{}
	hdr.Set("Accept-Encoding", "gzip")
	c, resp, err := websocket.DefaultDialer.Dial("ws"+strings.TrimPrefix(front.URL, "http")+"/ws", hdr)
	if err != nil {
		code := 0
		if resp != nil {
			code = resp.StatusCode
		}
		return fmt.Sprintf("ws dial-failed status=%d", code)
	}
	n := 0
	for i, sz := range strings.Split(sizes, ",") {
		var size int
		fmt.Sscan(sz, &size)
		msg := make([]byte, size)
		for j := range msg {
			msg[j] = byte('a' + (i+j)%23)
		}
		mt := websocket.TextMessage
		if i%2 == 1 {
			mt = websocket.BinaryMessage
			for j := range msg {
				msg[j] = byte((i*7 + j*13) % 256)
			}
		}
		if err := c.WriteMessage(mt, msg); err != nil {
			return fmt.Sprintf("ws write-failed at %d", i)
		}
		gt, got, err := c.ReadMessage()
		if err != nil || gt != mt || string(got) != string(msg) {
			return fmt.Sprintf("ws mismatch at message %d (size %d)", i, size)
		}
		_, ack, err := c.ReadMessage()
		if err != nil || string(ack) != fmt.Sprintf("ack:%d", size) {
			return fmt.Sprintf("ws ack mismatch at message %d", i)
		}
		n++
	}
	c.Close()
	select {
	case <-backendClosed:
	case <-time.After(5 * time.Second):
		return "ws backend-not-closed"
	}
	return fmt.Sprintf("ws ok %d", n)
}


// gracefulScenario: `gs <stuck_ms>` — the process-level shutdown (shutdownGracefully with a 1 s
// timeout) of a front end with active health checks, while one request stays in flight for
// <stuck_ms> (0: none). Whether the drain finishes or runs into the timeout, the balancer must be
// stopped: no probe reaches the backend afterwards.
func gracefulScenario(stuckMs int) string {
	var pmu sync.Mutex
	var probeAt []time.Time
	arrived := make(chan struct{}, 1)
	be := httptest.NewServer(http.HandlerFunc(func(w http.ResponseWriter, r *http.Request) {
		if r.URL.Path == "/health" {
			pmu.Lock()
			probeAt = append(probeAt, time.Now())
			pmu.Unlock()
			return
		}
		select {
		case arrived <- struct{}{}:
		default:
		}
		time.Sleep(time.Duration(stuckMs) * time.Millisecond)
	}))
	defer be.Close()
	cfg := &config.Config{}
	cfg.LoadBalancer.Strategy = "round_robin"
	cfg.Backends = []config.BackendConfig{{Name: "b0", Address: be.URL}}
	cfg.HealthChecks.Active = config.ActiveHealthCheckConfig{Enabled: true, Interval: 1, Timeout: 1, Path: "/health"}
	l, err := loadbalancer.NewLoadBalancer(cfg)
	if err != nil {
		return "err"
	}
	h, err := buildHandler(cfg, l)
	if err != nil {
		l.Stop()
		return "err"
	}
	srv := createHTTPServer(cfg, h)
	ln, err := net.Listen("tcp", "127.0.0.1:0")
	if err != nil {
		l.Stop()
		return "err:listen"
	}
	go func() { _ = srv.Serve(ln) }()
	if stuckMs > 0 {
		go func() {
			c := &http.Client{Timeout: 10 * time.Second}
			if resp, err := c.Get("http://" + ln.Addr().String() + "/slow"); err == nil {
				resp.Body.Close()
			}
		}()
		select {
		case <-arrived:
		case <-time.After(3 * time.Second):
		}
	}
	t0 := time.Now()
	fin := make(chan struct{})
	go func() { shutdownGracefully(srv, l, time.Second); close(fin) }()
	select {
	case <-fin:
	case <-time.After(15 * time.Second):
		return "gs HUNG"
	}
	dt := time.Since(t0).Milliseconds()
	ret := time.Now()
	time.Sleep(2500 * time.Millisecond)
	// a probe sent just before the balancer stopped may reach the backend's handler a little
	// after (the prober has given up on it, the server has not noticed yet): only arrivals well
	// after the return show a prober that is still running (it would send one every second)
	after := 0
	pmu.Lock()
	for _, at := range probeAt {
		if at.After(ret.Add(700 * time.Millisecond)) {
			after++
		}
	}
	pmu.Unlock()
	l.Stop() // (a balancer that was left running must not outlive the scenario)
	return fmt.Sprintf("gs returned probesAfter=%d || ms=%d", after, dt)
}


// startupKeepsConfig: `startup <log level>` — everything main() does with the configuration
// before it listens (logger set-up, NewLoadBalancer, buildHandler, createHTTPServer, the start-up
// log) on a configuration with every feature on. The configuration object is shared with the
// admin API, the balancer and the handlers for the life of the process: start-up must leave it
// exactly as it was loaded (a masked token, a canonicalised list or a defaulted field written back
// into it changes what those components enforce).
func startupKeepsConfig(level string) string {
	mk := func() *config.Config {
		cfg := &config.Config{}
		cfg.Server.Port = 18080
		cfg.Server.Timeouts.Handler = 30
		cfg.Backends = []config.BackendConfig{{Name: "b0", Address: "http://127.0.0.1:9", Weight: 2}, {Name: "b1", Address: "http://127.0.0.1:10"}}
		cfg.LoadBalancer.Strategy = "weighted_round_robin"
		cfg.LoadBalancer.WebSocketPool = config.WebSocketPoolConfig{Enabled: true, MaxIdle: 2, MaxActive: 8, IdleTimeoutSeconds: 30}
		cfg.HealthChecks.Active = config.ActiveHealthCheckConfig{Enabled: true, Interval: 3600, Timeout: 1, Path: "/health"}
		cfg.HealthChecks.Passive = config.PassiveHealthCheckConfig{Enabled: true, UnhealthyThreshold: 3, UnhealthyTimeout: 30}
		cfg.RateLimit = config.RateLimitConfig{Enabled: true, MaxTokens: 100, RefillRate: 1}
		cfg.CircuitBreaker = config.CircuitBreakerConfig{Enabled: true, MaxRequests: 0, IntervalSeconds: 60, TimeoutSeconds: 60, FailureThreshold: 5, SuccessThreshold: 2}
		cfg.Metrics = config.MetricsConfig{Enabled: true, Port: 19090, Path: "/metrics"}
		cfg.AdminAPI = config.AdminAPIConfig{Enabled: true, Port: 19091, AuthToken: "s3cr3t-t0ken-value", IPAllowList: []string{"2001:db8:0:1::10", "10.0.0.0/8", " 192.168.1.5"}, IPDenyList: []string{"10.9.9.9"}}
		if level != "-" {
			cfg.Logging.Level = level // "-": the key is omitted (documented default: info)
		}
		cfg.Logging.Format = "json"
		cfg.Logging.RequestID = config.RequestIDConfig{Enabled: true, Header: "x-my-req"}
		cfg.Logging.Trace = config.TraceConfig{Enabled: true}
		cfg.Plugins.Enabled = true
		cfg.Plugins.Chain = []config.PluginConfig{{Name: "headers", Config: map[string]interface{}{"set": map[string]interface{}{"X-Via": "helios"}}},
			{Name: "custom-auth", Config: map[string]interface{}{"apiKey": "k1"}}}
		return cfg
	}
	cfg, pristine := mk(), mk()
	if err := cfg.Validate(); err != nil {
		return "err:validate"
	}
	if !reflect.DeepEqual(cfg, pristine) {
		return "CONFIG-MUTATED by Validate"
	}
	logging.Init(cfg.Logging) // as main() does first: the configured level is the live one
	defer logging.Init(config.LoggingConfig{Level: "fatal", Format: "json"})
	l, err := loadbalancer.NewLoadBalancer(cfg)
	if err != nil {
		return "err:lb"
	}
	defer l.Stop()
	h, err := buildHandler(cfg, l)
	if err != nil {
		return "err:handler"
	}
	_ = createHTTPServer(cfg, h)
	logStartupInfo(cfg)
	if !reflect.DeepEqual(cfg, pristine) {
		what := "?"
		a, b := reflect.ValueOf(*cfg), reflect.ValueOf(*pristine)
		for i := 0; i < a.NumField(); i++ {
			if !reflect.DeepEqual(a.Field(i).Interface(), b.Field(i).Interface()) {
				what = a.Type().Field(i).Name
			}
		}
		return "CONFIG-MUTATED section=" + what
	}
	return "config-unchanged level=" + logging.L().GetLevel().String()
}

// frontAffinity: `aff <strategy> <backends> <ids 0|1> <plugins 0|1> <requests>` — client affinity through the
// handler cmd/helios builds (request-context middleware, optional plugin chain, balancer): one client
// address on many connections (source ports), the same address attributed by X-Forwarded-For and by
// X-Real-IP: each identity must be served by ONE backend while the pool does not change.
func frontAffinity(strategy string, nb int, ids, pl bool, nreq int) string {
	if nb < 1 || nb > 16 || nreq < 1 || nreq > 2000 {
		return "bad-op"
	}
	var servers []*httptest.Server
	defer func() {
		for _, s := range servers {
			s.Close()
		}
	}()
	cfg := &config.Config{}
	cfg.LoadBalancer.Strategy = strategy
	for i := 0; i < nb; i++ {
		name := fmt.Sprintf("a%d", i)
		srv := httptest.NewServer(http.HandlerFunc(func(w http.ResponseWriter, r *http.Request) {
			w.Header().Set("X-V-Served-By", name)
			_, _ = w.Write([]byte(name))
		}))
		servers = append(servers, srv)
		cfg.Backends = append(cfg.Backends, config.BackendConfig{Name: name, Address: srv.URL})
	}
	cfg.Logging.RequestID.Enabled = ids
	cfg.Logging.Trace.Enabled = ids
	if pl {
		cfg.Plugins.Enabled = true
		cfg.Plugins.Chain = []config.PluginConfig{{Name: "logging"}, {Name: "request-id"},
			{Name: "headers", Config: map[string]interface{}{"set": map[string]interface{}{"X-Via": "helios"}}}}
	}
	l, err := loadbalancer.NewLoadBalancer(cfg)
	if err != nil {
		return "err:lb"
	}
	defer l.Stop()
	h, err := buildHandler(cfg, l)
	if err != nil {
		return "err:handler:" + esc(err.Error())
	}
	groups := []struct {
		label string
		mk    func(i int) *http.Request
	}{
		{"direct", func(i int) *http.Request {
			r := httptest.NewRequest("GET", "/p", nil)
			r.RemoteAddr = fmt.Sprintf("10.0.0.9:%d", 20000+i*7)
			return r
		}},
		{"direct6", func(i int) *http.Request {
			r := httptest.NewRequest("GET", "/p", nil)
			r.RemoteAddr = fmt.Sprintf("[2001:db8::9]:%d", 30000+i*3)
			return r
		}},
		{"xff", func(i int) *http.Request {
			r := httptest.NewRequest("GET", "/p", nil)
			r.RemoteAddr = fmt.Sprintf("192.0.2.%d:%d", 1+i%200, 40000+i)
			r.Header.Set("X-Forwarded-For", "203.0.113.77")
			return r
		}},
		{"real", func(i int) *http.Request {
			r := httptest.NewRequest("GET", "/p", nil)
			r.RemoteAddr = fmt.Sprintf("192.0.2.%d:%d", 1+i%200, 50000+i)
			r.Header.Set("X-Real-IP", "198.51.100.23")
			return r
		}},
	}
	var parts []string
	for _, g := range groups {
		served := map[string]bool{}
		bad := 0
		for i := 0; i < nreq; i++ {
			rec := httptest.NewRecorder()
			h.ServeHTTP(rec, g.mk(i))
			if rec.Code != 200 {
				bad++
				continue
			}
			served[rec.Header().Get("X-V-Served-By")] = true
		}
		parts = append(parts, fmt.Sprintf("%s=%d", g.label, len(served)))
		if bad > 0 {
			parts = append(parts, fmt.Sprintf("%s-failed=%d", g.label, bad))
		}
	}
	return "aff " + strings.Join(parts, " ")
}

// cfgFidelity: `cfgfid <file>` — what LoadConfig hands to the rest of the program is what the file says:
// every number, string, flag, list entry and their order as a plain YAML decode of the same bytes
// gives them (a default filled in, a list sorted or de-duplicated, an entry trimmed or dropped, a
// file read only in part would each change what the balancer, the admin API or the plugins enforce)
func cfgFidelity(path string) string {
	raw, err := os.ReadFile(path)
	if err != nil {
		return "err:read"
	}
	var want config.Config
	if err := yaml.Unmarshal(raw, &want); err != nil {
		return "err:yaml"
	}
	got, err := config.LoadConfig(path)
	if err != nil {
		return "rejected:" + esc(err.Error())
	}
	if reflect.DeepEqual(*got, want) {
		return "same"
	}
	var diff func(prefix string, a, b reflect.Value) string
	diff = func(prefix string, a, b reflect.Value) string {
		if a.Kind() == reflect.Struct {
			for i := 0; i < a.NumField(); i++ {
				if !reflect.DeepEqual(a.Field(i).Interface(), b.Field(i).Interface()) {
					return diff(prefix+"."+a.Type().Field(i).Name, a.Field(i), b.Field(i))
				}
			}
		}
		return fmt.Sprintf("DIFF field=%s loaded=%s file=%s", strings.TrimPrefix(prefix, "."), esc(fmt.Sprintf("%v", a.Interface())), esc(fmt.Sprintf("%v", b.Interface())))
	}
	return diff("", reflect.ValueOf(*got), reflect.ValueOf(want))
}

// cfgValues: `cfgval <file>` — string values of a loaded configuration exactly as the file has them
// (tokens, addresses, header names, plugin options: nothing may rewrite them on the way in)
func cfgValues(path string) string {
	cfg, err := config.LoadConfig(path)
	if err != nil {
		return "load=err"
	}
	addr, key := "-", "-"
	if len(cfg.Backends) > 0 {
		addr = cfg.Backends[0].Address
	}
	for _, p := range cfg.Plugins.Chain {
		if v, ok := p.Config["apiKey"].(string); ok {
			key = v
		}
	}
	hx := func(s string) string { return fmt.Sprintf("%x", s) }
	return fmt.Sprintf("tok=%s addr=%s hdr=%s key=%s", hx(cfg.AdminAPI.AuthToken), hx(addr), hx(cfg.Logging.RequestID.Header), hx(key))
}
