//go:build verif

package loadbalancer

import (
	"unsafe"
	"reflect"
	"runtime"
	"bufio"
	"context"
	"errors"
	"fmt"
	"hash/fnv"
	"io"
	"net"
	"net/http"
	"net/http/httptest"
	"net/url"
	"os"
	"sort"
	"strconv"
	"strings"
	"sync"
	"sync/atomic"
	"testing"
	"time"

	"github.com/0xReLogic/Helios/internal/config"
	"github.com/0xReLogic/Helios/internal/logging"
	verifclock "github.com/0xReLogic/Helios/internal/verifclock"
)

// scripted transport: RoundTrip announces which backend was contacted and blocks until the
// harness delivers the outcome for that request.
type vReq struct {
	tid     string
	backend chan string // backend name, sent when RoundTrip is entered
	outcome chan string // "<status>" | "unreach" | "abort"
	done    chan string // final client-visible result
}

type vTransport struct {
	name string
	owner *Backend      // the backend object this transport belongs to
	lb    *LoadBalancer
}

type ctxKey struct{}

type failingBody struct{ sent bool }

func (f *failingBody) Read(p []byte) (int, error) {
	if !f.sent {
		f.sent = true
		return copy(p, "partial"), nil
	}
	return 0, errors.New("verif: connection reset mid-body")
}
func (f *failingBody) Close() error { return nil }

func (t *vTransport) RoundTrip(r *http.Request) (*http.Response, error) {
	vr := r.Context().Value(ctxKey{}).(*vReq)
	name := t.name
	if t.owner != nil && t.lb != nil {
		// the request reached a backend object that is no longer in the pool (removed, or replaced by
		// a new backend of the same name): say so
		current := false
		for _, b := range t.lb.strategy.GetBackends() {
			if b == t.owner {
				current = true
			}
		}
		if !current {
			name += "~REMOVED-OBJECT"
		}
	}
	vr.backend <- name
	o := <-vr.outcome
	switch o {
	case "unreach":
		return nil, errors.New("verif: connection refused")
	case "abort":
		return &http.Response{StatusCode: 200, Proto: "HTTP/1.1", ProtoMajor: 1, ProtoMinor: 1,
			Header: http.Header{"Content-Length": []string{"1000"}}, ContentLength: 1000,
			Body: &failingBody{}, Request: r}, nil
	}
	code, _ := strconv.Atoi(o)
	// answers carry the headers real backends put on them (by request number, so that every status is seen with
	// and without): whether an answer counts as a failure is a matter of its status alone
	h := http.Header{}
	tn, _ := strconv.Atoi(vr.tid)
	switch tn % 4 {
	case 1:
		h.Set("Retry-After", "5")
		h.Set("Cache-Control", "no-store")
	case 2:
		h.Set("Content-Type", "application/problem+json")
		h.Set("X-Error-Code", "E1234")
	case 3:
		h.Set("Retry-After", "Wed, 21 Oct 2026 07:28:00 GMT")
		h.Set("Connection", "close")
		h.Set("Warning", "199 - \"try later\"")
	}
	return &http.Response{StatusCode: code, Proto: "HTTP/1.1", ProtoMajor: 1, ProtoMinor: 1,
		Header: h, Body: io.NopCloser(strings.NewReader("")), Request: r}, nil
}

func unesc(s string) string {
	if s == "-" {
		return ""
	}
	u, err := url.PathUnescape(s)
	if err != nil {
		return s
	}
	return u
}

type vLB struct {
	lb        *LoadBalancer
	probeCode int32
	health    *httptest.Server
	fl        map[string]*vReq
	// a probe held in flight: the health endpoint announces its arrival and waits for the answer
	holdProbe atomic.Bool
	arrived   chan struct{}
	release   chan int
	probeDone chan struct{}
	probeName string
}

func (v *vLB) instrument() {
	for _, b := range v.lb.strategy.GetBackends() {
		if _, ok := b.ReverseProxy.Transport.(*vTransport); !ok {
			b.ReverseProxy.Transport = &vTransport{name: b.Name, owner: b, lb: v.lb}
			b.ReverseProxy.ErrorLog = nil
		}
	}
}

func (v *vLB) find(name string) *Backend {
	for _, b := range v.lb.strategy.GetBackends() {
		if b.Name == name {
			return b
		}
	}
	return nil
}

func (v *vLB) drain() {
	for k, f := range v.fl {
		f.outcome <- "200"
		<-f.done
		delete(v.fl, k)
	}
}

var quiet sync.Once

// TestVerifDriver executes `lb …` op lines against a real LoadBalancer (real strategies,
// health logic, limiter, breaker, metrics, ReverseProxy) with scripted backend transports,
// under the virtual clock.
func TestVerifDriver(t *testing.T) {
	quiet.Do(func() { logging.Init(config.LoggingConfig{Level: "fatal", Format: "json"}) })
	in, err := os.Open(os.Getenv("VERIF_OPS"))
	if err != nil {
		t.Fatal(err)
	}
	defer in.Close()
	outF, err := os.Create(os.Getenv("VERIF_OUT"))
	if err != nil {
		t.Fatal(err)
	}
	defer outF.Close()
	out := bufio.NewWriter(outF)
	defer out.Flush()

	v := &vLB{fl: map[string]*vReq{}, arrived: make(chan struct{}, 1), release: make(chan int, 1)}
	v.health = httptest.NewServer(http.HandlerFunc(func(w http.ResponseWriter, r *http.Request) {
		// code -1: the probe fails in transport (the connection is cut before any answer)
		answer := func(code int) {
			if code < 0 {
				if hj, ok := w.(http.Hijacker); ok {
					if c, _, err := hj.Hijack(); err == nil {
						_ = c.Close()
						return
					}
				}
				code = 500
			}
			w.WriteHeader(code)
		}
		if v.holdProbe.CompareAndSwap(true, false) { // exactly one request is held
			v.arrived <- struct{}{}
			answer(<-v.release)
			return
		}
		answer(int(atomic.LoadInt32(&v.probeCode)))
	}))
	defer v.health.Close()

	sc := bufio.NewScanner(in)
	sc.Buffer(make([]byte, 1<<20), 1<<20)
	for sc.Scan() {
		line := sc.Text()
		if line == "" || strings.HasPrefix(line, "#") {
			continue
		}
		w := strings.Fields(line)
		res := "bad-op"
		if len(w) >= 2 && w[0] == "lb" {
			// an operation of the balancer takes milliseconds (the concurrency searches a few
			// seconds): one that is still running after 40 s is wedged (a lock that is never
			// released) — say so and stop, instead of sitting out the test timeout
			done := make(chan string, 1)
			go func() { done <- v.op(w[1:]) }()
			select {
			case res = <-done:
			case <-time.After(40 * time.Second):
				fmt.Fprintln(out, "hang")
				out.Flush()
				outF.Close()
				os.Exit(3)
			}
		} else if len(w) == 6 && w[0] == "stop" {
			res = stopScenario(w[1:])
		} else if len(w) >= 2 && w[0] == "pool" {
			res = poolOp(w[1:])
		} else if len(w) == 4 && w[0] == "hash" && w[1] == "jump" {
			k, e1 := strconv.ParseUint(w[2], 10, 64)
			n, e2 := strconv.ParseInt(w[3], 10, 32)
			if e1 == nil && e2 == nil && n >= 1 {
				res = fmt.Sprintf("%d", jumpHash(k, int32(n)))
			}
		} else if len(w) == 3 && w[0] == "hash" && w[1] == "fnv" {
			h := fnv.New32a()
			_, _ = h.Write([]byte(unesc(w[2])))
			res = fmt.Sprintf("%d", h.Sum32())
		}
		fmt.Fprintln(out, res)
	}
	if v.probeDone != nil {
		// input ended with a probe still held in flight: answer it, or the health server cannot close
		v.release <- 200
		<-v.probeDone
		v.probeDone = nil
		v.holdProbe.Store(false)
	}
	v.drain()
}

func atoi(s string) int { n, _ := strconv.Atoi(s); return n }
func atoi64(s string) int64 {
	n, _ := strconv.ParseInt(s, 10, 64)
	return n
}

func (v *vLB) op(w []string) string {
	switch w[0] {
	case "new":
		// new <strategy> <passive> <threshold> <eject_s> <rl> <max> <refill_s> <cb> <ft> <st> <mx> <iv_s> <to_s>
		if len(w) != 14 && !(len(w) == 15 && w[14] == "act") {
			return "bad-op"
		}
		if v.probeDone != nil {
			// an episode ended with its probe still in flight: let it finish
			v.release <- 200
			<-v.probeDone
			v.probeDone = nil
			v.holdProbe.Store(false)
		}
		if v.lb != nil {
			v.drain()
			v.lb.Stop()
		}
		verifclock.Set(0)
		cfg := &config.Config{}
		cfg.LoadBalancer.Strategy = w[1]
		cfg.HealthChecks.Passive = config.PassiveHealthCheckConfig{Enabled: w[2] == "1", UnhealthyThreshold: atoi(w[3]), UnhealthyTimeout: atoi(w[4])}
		cfg.HealthChecks.Active.Path = "/health"
		cfg.HealthChecks.Active.Timeout = 2
		if len(w) == 15 {
			// active checks on, with an interval no episode reaches: probes happen only through the probe ops
			cfg.HealthChecks.Active.Enabled = true
			cfg.HealthChecks.Active.Interval = 86400
		}
		cfg.RateLimit = config.RateLimitConfig{Enabled: w[5] == "1", MaxTokens: atoi(w[6]), RefillRate: atoi(w[7])}
		cfg.CircuitBreaker = config.CircuitBreakerConfig{Enabled: w[8] == "1", FailureThreshold: atoi(w[9]), SuccessThreshold: atoi(w[10]),
			MaxRequests: atoi(w[11]), IntervalSeconds: atoi(w[12]), TimeoutSeconds: atoi(w[13])}
		cfg.Backends = nil
		atomic.StoreInt32(&v.probeCode, 200)
		lb, err := NewLoadBalancer(cfg)
		if err != nil {
			return "err"
		}
		if len(w) == 15 {
			// the loop's initial round (over an empty pool) runs in its own goroutine: let it pass
			// before the episode adds backends, so that no real probe interleaves with the ops
			time.Sleep(30 * time.Millisecond)
		}
		v.lb = lb
		return "ok"
	}
	if w[0] == "wireall" {
		// wireall <ai> <at> <pt> <pto> <rlm> <rlr> <wsi> <wsa> <wst> <tbr> <tbi> : every number the
		// configuration hands to a feature, through validation and NewLoadBalancer, read back from
		// the objects the balancer really runs with (durations in ns)
		if len(w) != 12 {
			return "bad-op"
		}
		n := func(i int) int { return atoi(w[i]) }
		cfg := &config.Config{}
		cfg.Server.Port = 8080
		cfg.LoadBalancer.Strategy = "round_robin"
		cfg.Backends = []config.BackendConfig{{Name: "s1", Address: "http://127.0.0.1:9", Weight: 1}}
		cfg.HealthChecks.Active = config.ActiveHealthCheckConfig{Enabled: true, Interval: n(1), Timeout: n(2), Path: "/health"}
		cfg.HealthChecks.Passive = config.PassiveHealthCheckConfig{Enabled: true, UnhealthyThreshold: n(3), UnhealthyTimeout: n(4)}
		cfg.RateLimit = config.RateLimitConfig{Enabled: true, MaxTokens: n(5), RefillRate: n(6)}
		cfg.LoadBalancer.WebSocketPool = config.WebSocketPoolConfig{Enabled: true, MaxIdle: n(7), MaxActive: n(8), IdleTimeoutSeconds: n(9)}
		cfg.Server.Timeouts.BackendRead = n(10)
		cfg.Server.Timeouts.BackendIdle = n(11)
		if err := cfg.Validate(); err != nil {
			return "rejected"
		}
		lb, err := NewLoadBalancer(cfg)
		if err != nil {
			return "err"
		}
		defer lb.Stop()
		hc := lb.healthChecks
		rl := reflect.ValueOf(lb.rateLimiter).Elem()
		var tbr, tbi int64 = -1, -1
		for _, b := range lb.strategy.GetBackends() {
			if tr, ok := b.ReverseProxy.Transport.(*http.Transport); ok {
				tbr, tbi = int64(tr.ResponseHeaderTimeout), int64(tr.IdleConnTimeout)
			}
		}
		return fmt.Sprintf("eff ai=%d at=%d pt=%d pto=%d rlm=%d rlr=%d wsi=%d wsa=%d wst=%d tbr=%d tbi=%d",
			int64(hc.activeInterval), int64(hc.activeTimeout), hc.passiveThreshold, int64(hc.passiveTimeout),
			rl.FieldByName("maxTokens").Int(), rl.FieldByName("refillRate").Int(),
			lb.wsPool.maxIdle, lb.wsPool.maxActive, int64(lb.wsPool.idleTimeout), tbr, tbi)
	}
	if w[0] == "wire" {
		// wire <max> <interval_s> <timeout_s> <fail> <succ> : what the balancer makes of a breaker
		// configuration that validation accepts (the settings the breaker really runs with)
		if len(w) != 6 {
			return "bad-op"
		}
		cfg := &config.Config{}
		cfg.Server.Port = 8080
		cfg.LoadBalancer.Strategy = "round_robin"
		cfg.Backends = []config.BackendConfig{{Name: "s1", Address: "http://127.0.0.1:9", Weight: 1}}
		cfg.CircuitBreaker = config.CircuitBreakerConfig{Enabled: true, MaxRequests: atoi(w[1]), IntervalSeconds: atoi(w[2]),
			TimeoutSeconds: atoi(w[3]), FailureThreshold: atoi(w[4]), SuccessThreshold: atoi(w[5])}
		if err := cfg.Validate(); err != nil {
			return "rejected"
		}
		lb, err := NewLoadBalancer(cfg)
		if err != nil {
			return "err"
		}
		defer lb.Stop()
		cb := reflect.ValueOf(lb.circuitBreaker).Elem()
		return fmt.Sprintf("eff %d %d %d %d %d", cb.FieldByName("maxRequests").Uint(), cb.FieldByName("interval").Int(),
			cb.FieldByName("timeout").Int(), cb.FieldByName("failureThreshold").Uint(), cb.FieldByName("successThreshold").Uint())
	}
	if v.lb == nil {
		return "bad-op"
	}
	switch w[0] {
	case "add":
		// add <name> <weight> <good|bad> : the address is the shared health server (good) or unparsable (bad)
		if len(w) != 4 {
			return "bad-op"
		}
		addr := v.health.URL
		if w[3] == "bad" {
			addr = "http://[::1"
		}
		if err := v.lb.AddBackend(config.BackendConfig{Name: unesc(w[1]), Address: addr, Weight: atoi(w[2])}); err != nil {
			return "err"
		}
		v.instrument()
		return "ok"
	case "remove":
		if len(w) != 2 {
			return "bad-op"
		}
		v.lb.RemoveBackend(unesc(w[1]))
		return "ok"
	case "strategy":
		if len(w) != 2 {
			return "bad-op"
		}
		if err := v.lb.SetStrategy(w[1]); err != nil {
			return "err"
		}
		return "ok"
	case "rrseek":
		// rrseek <k>: the round-robin rotation counter as it stands after k more picks (the state a
		// long-running process reaches; the field is advanced in place, whatever its width)
		if len(w) != 2 {
			return "bad-op"
		}
		k, err := strconv.ParseUint(w[1], 10, 64)
		if err != nil {
			return "bad-op"
		}
		if rr, ok := v.lb.strategy.(*RoundRobinStrategy); ok {
			f := reflect.ValueOf(rr).Elem().FieldByName("current")
			if !f.IsValid() {
				return "no-counter"
			}
			p := unsafe.Pointer(f.UnsafeAddr())
			switch f.Kind() {
			case reflect.Uint64:
				atomic.AddUint64((*uint64)(p), k)
			case reflect.Uint32:
				atomic.AddUint32((*uint32)(p), uint32(k))
			case reflect.Int64:
				atomic.AddInt64((*int64)(p), int64(k))
			case reflect.Int32:
				atomic.AddInt32((*int32)(p), int32(k))
			case reflect.Int, reflect.Uint, reflect.Uintptr:
				atomic.AddUintptr((*uintptr)(p), uintptr(k))
			default:
				return "no-counter"
			}
		}
		return "ok"
	case "pickconc":
		// pickconc <now> <workers> <k> : concurrent NextBackend calls on the current strategy; while
		// some backend is outside its unhealthy window no call may come back empty-handed.
		// (Last op of an episode: the rotation state afterwards depends on the schedule.)
		if len(w) != 4 {
			return "bad-op"
		}
		verifclock.Set(atoi64(w[1]))
		bs := v.lb.strategy.GetBackends()
		anyEligible := false
		for _, b := range bs {
			if b.eligible(verifclock.Now()) {
				anyEligible = true
			}
		}
		if !anyEligible {
			return "n/a"
		}
		workers, k := atoi(w[2]), atoi(w[3])
		if workers < 1 || workers > 64 || k < 1 || k > 100000 {
			return "bad-op"
		}
		var nils int64
		var wg sync.WaitGroup
		for g := 0; g < workers; g++ {
			wg.Add(1)
			go func(g int) {
				defer wg.Done()
				req := httptest.NewRequest("GET", "/", nil)
				req.RemoteAddr = fmt.Sprintf("10.7.%d.%d:99", g, g)
				for i := 0; i < k; i++ {
					if v.lb.strategy.NextBackend(req) == nil {
						atomic.AddInt64(&nils, 1)
					}
				}
			}(g)
		}
		wg.Wait()
		if nils > 0 {
			return fmt.Sprintf("INCOMPLETE %d of %d concurrent picks found no backend", nils, workers*k)
		}
		return "complete"
	case "ejectrace":
		// ejectrace <now> <rounds> : the lazy expiry check of a backend whose window has elapsed
		// races a fresh ejection of the same backend; whichever critical section runs second, the
		// backend must end ejected (last op of an episode: the backend stays ejected)
		if len(w) != 3 {
			return "bad-op"
		}
		verifclock.Set(atoi64(w[1]))
		bs := v.lb.strategy.GetBackends()
		rounds := atoi(w[2])
		if len(bs) == 0 || rounds < 1 || rounds > 1000000 {
			return "n/a"
		}
		b := bs[0]
		lost := 0
		for r := 0; r < rounds && lost == 0; r++ {
			b.Mutex.Lock()
			b.IsHealthy = false
			b.UnhealthyUntil = verifclock.Now().Add(-time.Second)
			b.Mutex.Unlock()
			var ready, wg sync.WaitGroup
			gate := make(chan struct{})
			ready.Add(2)
			wg.Add(2)
			go func() { defer wg.Done(); ready.Done(); <-gate; v.lb.IsBackendHealthy(b) }()
			go func() { defer wg.Done(); ready.Done(); <-gate; v.lb.MarkBackendUnhealthy(b, time.Hour) }()
			ready.Wait()
			close(gate)
			wg.Wait()
			b.Mutex.RLock()
			if b.IsHealthy {
				lost++
			}
			b.Mutex.RUnlock()
		}
		if lost > 0 {
			return "LOST-EJECTION a backend ejected for an hour is marked healthy by a concurrent expiry check"
		}
		return "consistent"
	case "affconc":
		// affconc <now> <workers> <k> : every worker is one client address; its pick is taken once
		// with nobody else running and must then come back on every one of k picks made while the
		// other workers pick for their own addresses (affinity is per client, whatever else runs)
		if len(w) != 4 {
			return "bad-op"
		}
		verifclock.Set(atoi64(w[1]))
		_, h1 := v.lb.strategy.(*IPHashStrategy)
		_, h2 := v.lb.strategy.(*IPHashConsistentStrategy)
		anyElig := false
		for _, b := range v.lb.strategy.GetBackends() {
			if b.eligible(verifclock.Now()) {
				anyElig = true
			}
		}
		if !(h1 || h2) || !anyElig {
			return "n/a"
		}
		workers, k := atoi(w[2]), atoi(w[3])
		if workers < 1 || workers > 64 || k < 1 || k > 100000 {
			return "bad-op"
		}
		reqs := make([]*http.Request, workers)
		want := make([]*Backend, workers)
		for g := range reqs {
			reqs[g] = httptest.NewRequest("GET", "/", nil)
			reqs[g].RemoteAddr = fmt.Sprintf("10.%d.%d.%d:99", 3*g+1, 7*g, g)
			want[g] = v.lb.strategy.NextBackend(reqs[g])
		}
		var moved int64
		var wg sync.WaitGroup
		for g := 0; g < workers; g++ {
			wg.Add(1)
			go func(g int) {
				defer wg.Done()
				for i := 0; i < k; i++ {
					if v.lb.strategy.NextBackend(reqs[g]) != want[g] {
						atomic.AddInt64(&moved, 1)
					}
				}
			}(g)
		}
		wg.Wait()
		if moved > 0 {
			return fmt.Sprintf("MOVED %d of %d picks for a fixed client left its backend while other clients were served", moved, workers*k)
		}
		return "stable"
	case "rrconc":
		// rrconc <workers> <k> : n*k picks of the round-robin strategy made by <workers> concurrent
		// goroutines; with every backend eligible each backend must be picked exactly k times
		if len(w) != 3 {
			return "bad-op"
		}
		rr, isRR := v.lb.strategy.(*RoundRobinStrategy)
		bs := v.lb.strategy.GetBackends()
		if !isRR || len(bs) == 0 {
			return "n/a"
		}
		for _, b := range bs {
			if !b.IsHealthy {
				return "n/a"
			}
		}
		workers, k := atoi(w[1]), atoi(w[2])
		if workers < 1 || workers > 64 || k < 1 || k > 100000 {
			return "bad-op"
		}
		total := len(bs) * k
		counts := make([]int64, len(bs))
		idx := map[*Backend]int{}
		for i, b := range bs {
			idx[b] = i
		}
		var next int64
		var wg sync.WaitGroup
		var nils int64
		var ready, goFlag int32
		for g := 0; g < workers; g++ {
			wg.Add(1)
			go func() {
				defer wg.Done()
				atomic.AddInt32(&ready, 1)
				for atomic.LoadInt32(&goFlag) == 0 {
					runtime.Gosched()
				}
				req := httptest.NewRequest("GET", "/", nil)
				for atomic.AddInt64(&next, 1) <= int64(total) {
					b := rr.NextBackend(req)
					if b == nil {
						atomic.AddInt64(&nils, 1)
						continue
					}
					atomic.AddInt64(&counts[idx[b]], 1)
				}
			}()
		}
		for atomic.LoadInt32(&ready) < int32(workers) {
			runtime.Gosched()
		}
		atomic.StoreInt32(&goFlag, 1)
		wg.Wait()
		for i := range counts {
			if counts[i] != int64(k) {
				return fmt.Sprintf("UNEVEN counts=%v want=%d nil=%d", counts, k, nils)
			}
		}
		return "exact"
	case "list":
		var parts []string
		for _, b := range v.lb.ListBackends() {
			parts = append(parts, fmt.Sprintf("%s:%v:%d:%d", url.PathEscape(b.Name), b.Healthy, b.ActiveConnections, b.Weight))
		}
		return "list " + strings.Join(parts, ",")
	case "metrics":
		m := v.lb.GetMetricsCollector().GetMetrics()
		var names []string
		for n := range m.BackendMetrics {
			names = append(names, n)
		}
		sort.Strings(names)
		var parts []string
		for _, n := range names {
			b := m.BackendMetrics[n]
			parts = append(parts, fmt.Sprintf("%s:%d:%d:%d:%d:%v", url.PathEscape(n), b.TotalRequests, b.SuccessfulRequests, b.FailedRequests, b.ActiveConnections, b.IsHealthy))
		}
		return fmt.Sprintf("metrics %d %d %d %d %s", m.TotalRequests, m.SuccessfulRequests, m.FailedRequests, m.RateLimitedRequests, strings.Join(parts, ","))
	case "eject":
		// eject <name> <now> <dur_ns>
		if len(w) != 4 {
			return "bad-op"
		}
		b := v.find(unesc(w[1]))
		if b == nil {
			return "nobackend"
		}
		verifclock.Set(atoi64(w[2]))
		v.lb.MarkBackendUnhealthy(b, time.Duration(atoi64(w[3])))
		return "ok"
	case "probe":
		// probe <name> <now> <ok|fail> : one synchronous active check of that backend
		if len(w) != 4 {
			return "bad-op"
		}
		b := v.find(unesc(w[1]))
		if b == nil {
			return "nobackend"
		}
		verifclock.Set(atoi64(w[2]))
		switch w[3] {
		case "ok":
			atomic.StoreInt32(&v.probeCode, 200)
		case "err":
			atomic.StoreInt32(&v.probeCode, -1)
		default:
			atomic.StoreInt32(&v.probeCode, 500)
		}
		v.lb.checkBackendHealth(b)
		return "ok"
	case "probe-begin":
		// probe-begin <name> <now> : an active check starts; if a probe is sent it stays in flight
		if len(w) != 3 || v.probeDone != nil {
			return "bad-op"
		}
		b := v.find(unesc(w[1]))
		if b == nil {
			return "nobackend"
		}
		verifclock.Set(atoi64(w[2]))
		v.holdProbe.Store(true)
		done := make(chan struct{})
		go func() { v.lb.checkBackendHealth(b); close(done) }()
		select {
		case <-v.arrived:
			v.probeDone = done
			v.probeName = w[1]
			return "started"
		case <-done:
			v.holdProbe.Store(false)
			return "skipped"
		case <-time.After(1500 * time.Millisecond):
			v.holdProbe.Store(false)
			return "probe-lost"
		}
	case "probe-end":
		// probe-end <name> <now> <ok|fail> : the answer of the probe in flight arrives
		if len(w) != 4 {
			return "bad-op"
		}
		if v.probeDone == nil || v.probeName != w[1] {
			return "none-pending"
		}
		verifclock.Set(atoi64(w[2]))
		code := 200
		if w[3] == "err" {
			code = -1
			// the client retries a request whose reused connection was cut: cut the retry too
			atomic.StoreInt32(&v.probeCode, -1)
		} else if w[3] != "ok" {
			code = 500
		}
		v.release <- code
		<-v.probeDone
		v.probeDone = nil
		v.holdProbe.Store(false)
		return "ok"
	case "begin":
		// begin <tid> <now> <xff> <xri> <remote> [upg] : with `upg` the request offers a protocol
		// upgrade (the scripted backend declines it): every gate treats it like any other request
		if (len(w) != 6 && !(len(w) == 7 && w[6] == "upg")) || v.fl[w[1]] != nil {
			return "bad-op"
		}
		verifclock.Set(atoi64(w[2]))
		f := &vReq{tid: w[1], backend: make(chan string, 1), outcome: make(chan string, 1), done: make(chan string, 1)}
		req := httptest.NewRequest("GET", "/x", nil)
		if x := unesc(w[3]); x != "" {
			req.Header.Set("X-Forwarded-For", x)
		}
		if x := unesc(w[4]); x != "" {
			req.Header.Set("X-Real-IP", x)
		}
		req.RemoteAddr = unesc(w[5])
		if len(w) == 7 {
			req.Header.Set("Connection", "Upgrade")
			req.Header.Set("Upgrade", "h2c")
		}
		ctx := context.WithValue(req.Context(), ctxKey{}, f)
		ctx = context.WithValue(ctx, http.ServerContextKey, &http.Server{}) // as under a real server: ReverseProxy aborts by panic
		req = req.WithContext(ctx)
		rec := httptest.NewRecorder()
		go func() {
			defer func() {
				if r := recover(); r != nil {
					f.done <- fmt.Sprintf("aborted %d", rec.Code)
					return
				}
				f.done <- fmt.Sprintf("%d", rec.Code)
			}()
			v.lb.ServeHTTP(rec, req)
		}()
		select {
		case name := <-f.backend:
			v.fl[w[1]] = f
			return "fwd " + url.PathEscape(name)
		case r := <-f.done:
			return "resp " + r
		case <-time.After(10 * time.Second):
			return "hang"
		}
	case "end":
		// end <tid> <now> <status|unreach|abort>
		if len(w) != 4 {
			return "bad-op"
		}
		f := v.fl[w[1]]
		if f == nil {
			return "unknown"
		}
		verifclock.Set(atoi64(w[2]))
		f.outcome <- w[3]
		select {
		case r := <-f.done:
			delete(v.fl, w[1])
			return "done " + r
		case <-time.After(10 * time.Second):
			return "hang"
		}
	}
	return "bad-op"
}

// fake connections for the WebSocket pool: identity + closed flag
type vConn struct {
	net.Conn
	id        int
	closed    bool
	failClose bool // Close reports an error (the peer has gone): the connection is closed all the same
}

func (c *vConn) Close() error {
	c.closed = true
	if c.failClose {
		return errors.New("verif: close: broken pipe")
	}
	return nil
}

var (
	vPool  *WebSocketPool
	vConns map[int]*vConn
)

func closedList() string {
	var ids []int
	for id, c := range vConns {
		if c.closed {
			ids = append(ids, id)
		}
	}
	sort.Ints(ids)
	var parts []string
	for _, id := range ids {
		parts = append(parts, strconv.Itoa(id))
	}
	return "closed=" + strings.Join(parts, ",")
}

func poolOp(w []string) string {
	switch w[0] {
	case "new":
		if len(w) != 3 {
			return "bad-op"
		}
		verifclock.Set(0)
		vPool = NewWebSocketPool(atoi(w[1]), 100, time.Duration(atoi64(w[2])))
		vConns = map[int]*vConn{}
		return "ok"
	}
	if vPool == nil {
		return "bad-op"
	}
	switch w[0] {
	case "get":
		verifclock.Set(atoi64(w[2]))
		c := vPool.Get(w[1])
		if c == nil {
			return "none " + closedList()
		}
		return fmt.Sprintf("conn %d %s", c.(*vConn).id, closedList())
	case "put":
		verifclock.Set(atoi64(w[3]))
		id := atoi(w[2])
		c := vConns[id]
		if c == nil {
			c = &vConn{id: id}
			vConns[id] = c
		}
		return fmt.Sprintf("%v %s", vPool.Put(w[1], c), closedList())
	case "close":
		id := atoi(w[2])
		c := vConns[id]
		if c == nil {
			c = &vConn{id: id}
			vConns[id] = c
		}
		vPool.Close(w[1], c)
		return "ok " + closedList()
	case "cleanup":
		verifclock.Set(atoi64(w[1]))
		vPool.cleanup()
		return "ok " + closedList()
	case "shutdown":
		vPool.Shutdown()
		return "ok " + closedList()
	case "stats":
		i, a := vPool.Stats(w[1])
		return fmt.Sprintf("stats %d %d", i, a)
	}
	return "bad-op"
}

// stopScenario: `stop <backends> <probe_ms> <delay_us> <stoppers> <pool 0|1>` — a real balancer
// with active checks (interval 1s, so the initial fan-out plus at most one tick), probes
// answered after probe_ms, Stop called delay_us after construction by `stoppers` goroutines
// at once. Reports whether every Stop returned, how long the slowest took, how many probes
// arrived after the first Stop had returned, and whether the pool kept a connection.
func stopScenario(w []string) string {
	nb, probeMs, delayUs, stoppers := atoi(w[0]), atoi(w[1]), atoi(w[2]), atoi(w[3])
	var mu sync.Mutex
	var firstReturn time.Time
	late := 0
	be := httptest.NewServer(http.HandlerFunc(func(rw http.ResponseWriter, r *http.Request) {
		time.Sleep(time.Duration(probeMs) * time.Millisecond)
	}))
	defer be.Close()
	// probes go through http.DefaultTransport (performHealthCheck builds a bare http.Client):
	// record the instant each probe is handed to the transport, i.e. is being sent
	orig := http.DefaultTransport
	http.DefaultTransport = sendRecorder(func(r *http.Request) (*http.Response, error) {
		mu.Lock()
		if !firstReturn.IsZero() && r.Context().Err() == nil {
			late++
		}
		mu.Unlock()
		return orig.RoundTrip(r)
	})
	defer func() { http.DefaultTransport = orig }()
	cfg := &config.Config{}
	cfg.LoadBalancer.Strategy = "round_robin"
	for j := 0; j < nb; j++ {
		cfg.Backends = append(cfg.Backends, config.BackendConfig{Name: fmt.Sprintf("b%d", j), Address: be.URL})
	}
	cfg.HealthChecks.Active = config.ActiveHealthCheckConfig{Enabled: true, Interval: 1, Timeout: 1, Path: "/"}
	if w[4] == "2" {
		// the pool without active health checks: nothing but Stop itself is there to close it
		cfg.HealthChecks.Active = config.ActiveHealthCheckConfig{}
	}
	if w[4] == "1" || w[4] == "2" {
		cfg.LoadBalancer.WebSocketPool = config.WebSocketPoolConfig{Enabled: true, MaxIdle: 4, MaxActive: 8, IdleTimeoutSeconds: 60}
	}
	lb, err := NewLoadBalancer(cfg)
	if err != nil {
		return "stop setup-error"
	}
	// several pooled connections, the first of which reports an error when closed (its peer has gone)
	var pooled []*vConn
	if lb.wsPool != nil {
		for k := 0; k < 4; k++ {
			c := &vConn{id: k + 1, failClose: k == 0}
			pooled = append(pooled, c)
			lb.wsPool.Put(fmt.Sprintf("b%d", (k/3)%nb), c)
		}
	}
	time.Sleep(time.Duration(delayUs) * time.Microsecond)
	done := make(chan time.Duration, stoppers)
	crashed := make(chan string, stoppers)
	for k := 0; k < stoppers; k++ {
		go func() {
			defer func() {
				if r := recover(); r != nil {
					crashed <- fmt.Sprint(r)
				}
			}()
			t0 := time.Now()
			lb.Stop()
			mu.Lock()
			if firstReturn.IsZero() {
				firstReturn = time.Now()
			}
			mu.Unlock()
			done <- time.Since(t0)
		}()
	}
	var worst time.Duration
	for k := 0; k < stoppers; k++ {
		select {
		case d := <-done:
			if d > worst {
				worst = d
			}
		case c := <-crashed:
			return "stop PANIC " + strings.ReplaceAll(c, " ", "_")
		case <-time.After(10 * time.Second):
			return "stop HANG"
		}
	}
	lb.Stop() // a repeated Stop is harmless
	time.Sleep(time.Duration(2*probeMs+20) * time.Millisecond)
	mu.Lock()
	defer mu.Unlock()
	res := fmt.Sprintf("stop returned within=%v late=%d", worst < 3*time.Second, late)
	if pooled != nil {
		all := true
		for _, c := range pooled {
			all = all && c.closed
		}
		res += fmt.Sprintf(" pooledClosed=%v", all)
	}
	return res
}

type sendRecorder func(*http.Request) (*http.Response, error)

func (f sendRecorder) RoundTrip(r *http.Request) (*http.Response, error) { return f(r) }
