//go:build verif

package loadbalancer

import (
	"github.com/0xReLogic/Helios/internal/config"
	verifclock "github.com/0xReLogic/Helios/internal/verifclock"
	"fmt"
	"math/rand"
	"net"
	"os"
	"runtime"
	"sort"
	"strconv"
	"strings"
	"sync"
	"sync/atomic"
	"testing"
	"time"
)

// rConn: fake pooled connection whose closed flag is safe to read concurrently; a double
// hand-out (two holders of one connection) is detected through `holders`.
type rConn struct {
	net.Conn
	id      int
	closed  atomic.Bool
	holders atomic.Int32
}

// Close takes a little while, as closing a socket does: whatever the pool does around a Close
// (a lock released, a list written back) gets a window in which the other callers run
func (c *rConn) Close() error {
	c.closed.Store(true)
	time.Sleep(20 * time.Microsecond)
	return nil
}

// TestVerifPoolRace: the WebSocket pool under concurrent Get / Put / Close / Stats / cleanup
// and a Shutdown that arrives while the others still run (binary built with -race). Besides
// the race detector the run checks the C20 clauses that only concurrency can break: a
// connection is never held by two callers at once, and nothing stays open after Shutdown.
func TestVerifPoolRace(t *testing.T) {
	ms, _ := strconv.Atoi(os.Getenv("VERIF_RACE_MS"))
	if ms <= 0 {
		ms = 800
	}
	seed, _ := strconv.ParseInt(os.Getenv("VERIF_RACE_SEED"), 10, 64)
	p := NewWebSocketPool(3, 6, 5*time.Millisecond)
	var all sync.Map
	var nextID atomic.Int32
	var double, ops atomic.Int64
	deadline := time.Now().Add(time.Duration(ms) * time.Millisecond)
	var wg sync.WaitGroup
	for g := 0; g < 6; g++ {
		wg.Add(1)
		go func(g int) {
			defer wg.Done()
			rng := rand.New(rand.NewSource(seed*10 + int64(g)))
			for time.Now().Before(deadline.Add(40 * time.Millisecond)) { // overlaps Shutdown
				b := fmt.Sprintf("b%d", rng.Intn(3))
				var c *rConn
				if got := p.Get(b); got != nil {
					c = got.(*rConn)
				} else {
					c = &rConn{id: int(nextID.Add(1))}
					all.Store(c.id, c)
				}
				if c.holders.Add(1) != 1 {
					double.Add(1)
				}
				if rng.Intn(4) == 0 {
					time.Sleep(time.Duration(rng.Intn(300)) * time.Microsecond)
				}
				c.holders.Add(-1)
				switch rng.Intn(5) {
				case 0:
					p.Close(b, c)
				default:
					if !p.Put(b, c) {
						_ = c.Close()
					}
				}
				_, _ = p.Stats(b)
				if rng.Intn(6) == 0 {
					p.cleanup()
				}
				ops.Add(1)
			}
		}(g)
	}
	time.Sleep(time.Until(deadline))
	p.Shutdown()
	wg.Wait()
	open := 0
	all.Range(func(_, v interface{}) bool {
		if !v.(*rConn).closed.Load() {
			open++
		}
		return true
	})
	fmt.Printf("pool-race done ops=%d conns=%d double=%d openAfterShutdown=%d\n", ops.Load(), nextID.Load(), double.Load(), open)
	if double.Load() != 0 || open != 0 {
		t.Fatalf("VERIF-POOL double=%d open=%d", double.Load(), open)
	}
}

// qConn: a connection whose Close only records that it happened
type qConn struct {
	net.Conn
	closed atomic.Bool
}

func (c *qConn) Close() error { c.closed.Store(true); return nil }

// TestVerifPutShutdown: a stream of connections is being handed back to the pool (Put) when it
// is shut down. Whatever the interleaving, no connection given to Put may still be open once
// Shutdown and every Put have returned: Shutdown closes what the pool holds, a Put that comes too
// late closes what it was given.
func TestVerifPutShutdown(t *testing.T) {
	rounds, _ := strconv.Atoi(os.Getenv("VERIF_PUT_ROUNDS"))
	if rounds <= 0 {
		rounds = 200
	}
	const putters = 16
	for r := 0; r < rounds; r++ {
		p := NewWebSocketPool(1<<20, 1<<20, time.Minute)
		var stop atomic.Bool
		var wg sync.WaitGroup
		handed := make([][]*qConn, putters)
		started := make(chan struct{}, putters)
		for g := 0; g < putters; g++ {
			wg.Add(1)
			go func(g int) {
				defer wg.Done()
				started <- struct{}{}
				for i := 0; !stop.Load() && i < 4000; i++ {
					c := &qConn{}
					handed[g] = append(handed[g], c)
					p.Put(fmt.Sprintf("b%d", g%3), c)
				}
			}(g)
		}
		for g := 0; g < putters; g++ {
			<-started
		}
		for i := 0; i < r%7; i++ {
			runtime.Gosched()
		}
		time.Sleep(time.Duration(r%5) * 100 * time.Microsecond)
		p.Shutdown()
		stop.Store(true)
		wg.Wait()
		for g := range handed {
			for _, c := range handed[g] {
				if !c.closed.Load() {
					t.Fatalf("VERIF-POOL round %d: a connection handed to Put around Shutdown is still open after both returned", r)
				}
			}
		}
	}
	fmt.Printf("put-shutdown done rounds=%d\n", rounds)
}

// sConn: a connection whose Close takes a while (as closing a socket can)
type sConn struct {
	net.Conn
	closed atomic.Bool
}

func (c *sConn) Close() error {
	time.Sleep(150 * time.Microsecond)
	c.closed.Store(true)
	return nil
}

// TestVerifCleanupShutdown: the janitor pass (cleanup) is busy with a backend's idle list — some
// connections stale, some fresh — at the moment the pool is shut down. Once both have returned,
// every connection the pool held is closed: none survives in a list nobody will look at again.
func TestVerifCleanupShutdown(t *testing.T) {
	rounds, _ := strconv.Atoi(os.Getenv("VERIF_CLEANUP_ROUNDS"))
	if rounds <= 0 {
		rounds = 150
	}
	for r := 0; r < rounds; r++ {
		p := NewWebSocketPool(16, 16, 2*time.Millisecond)
		var conns []*sConn
		for k := 0; k < 4; k++ {
			c := &sConn{}
			conns = append(conns, c)
			p.Put("b", c)
		}
		verifclock.Advance(3 * time.Millisecond) // the first four are stale now (the package reads the harness clock)
		for k := 0; k < 4; k++ {
			c := &sConn{}
			conns = append(conns, c)
			p.Put("b", c)
		}
		var ready, goFlag atomic.Int32
		var wg sync.WaitGroup
		wg.Add(2)
		go func() {
			defer wg.Done()
			ready.Add(1)
			for goFlag.Load() == 0 {
			}
			p.cleanup()
		}()
		go func() {
			defer wg.Done()
			ready.Add(1)
			for goFlag.Load() == 0 {
			}
			for spin := 0; spin < (r%16)*400; spin++ {
				_ = goFlag.Load()
			}
			p.Shutdown()
		}()
		for ready.Load() < 2 {
			runtime.Gosched()
		}
		goFlag.Store(1)
		wg.Wait()
		for k, c := range conns {
			if !c.closed.Load() {
				t.Fatalf("VERIF-POOL round %d: pooled connection %d is still open after cleanup and Shutdown have both returned", r, k)
			}
		}
	}
	fmt.Printf("cleanup-shutdown done rounds=%d\n", rounds)
}

// gConn: a connection whose Close waits at a gate (a socket whose close blocks for a moment)
type gConn struct {
	net.Conn
	id      int
	entered chan struct{}
	gate    chan struct{}
	closed  atomic.Bool
}

func (c *gConn) Close() error {
	if c.entered != nil {
		select {
		case c.entered <- struct{}{}:
		default:
		}
		<-c.gate
	}
	c.closed.Store(true)
	return nil
}

// TestVerifCleanupWindow: the janitor pass is in the middle of a backend's idle list (closing a stale
// connection takes a moment) while Get and Put are called for that backend. Whatever the pass does
// with its lock, afterwards (1) no connection has been handed to two holders and (2) a connection Put
// accepted is still held — and therefore closed by Shutdown. The schedule is forced: the stale
// connection's Close blocks at a gate until Get / Put have either returned or are visibly waiting.
func TestVerifCleanupWindow(t *testing.T) {
	for _, variant := range []string{"get", "put"} {
		p := NewWebSocketPool(8, 8, 20*time.Millisecond)
		stale := &gConn{id: 1, entered: make(chan struct{}, 1), gate: make(chan struct{})}
		p.Put("b", stale)
		verifclock.Advance(30 * time.Millisecond) // stale now (the package reads the harness clock)
		fresh := &gConn{id: 2}
		p.Put("b", fresh)
		done := make(chan struct{})
		go func() { p.cleanup(); close(done) }()
		select {
		case <-stale.entered:
		case <-time.After(2 * time.Second):
			t.Fatalf("VERIF-POOL %s: the janitor pass never closed the stale connection", variant)
		}
		var got1 net.Conn
		extra := &gConn{id: 3}
		accepted := false
		opDone := make(chan struct{})
		go func() {
			if variant == "get" {
				got1 = p.Get("b")
			} else {
				accepted = p.Put("b", extra)
			}
			close(opDone)
		}()
		select {
		case <-opDone: // the pass does not hold the backend's lock while closing
		case <-time.After(150 * time.Millisecond): // it does: the call waits for the pass
		}
		close(stale.gate)
		<-done
		<-opDone
		if variant == "get" {
			got2 := p.Get("b")
			if got1 != nil && got2 != nil && got1 == got2 {
				t.Fatalf("VERIF-POOL get: the connection handed out by Get while the janitor pass was running was handed out again by the next Get (two holders of one connection)")
			}
		} else {
			idle, _ := p.Stats("b")
			p.Shutdown()
			if accepted && !extra.closed.Load() {
				t.Fatalf("VERIF-POOL put: a connection Put accepted while the janitor pass was running is still open after Shutdown (idle count before Shutdown: %d): the pass dropped it from the list", idle)
			}
		}
		if variant == "get" {
			p.Shutdown()
		}
	}
	fmt.Println("cleanup-window done")
}

// TestVerifTickShutdown: Shutdown arrives while the pool's OWN janitor goroutine (started by
// NewWebSocketPool, woken by its real 30 s ticker) is in the middle of a pass — closing a stale
// connection takes a moment. Shutdown must return, and every pooled connection must be closed. The test
// has to wait for the real tick, so it is run only when a static fact about waiting under a lock no
// longer holds (search for a concrete schedule), never on the routine path.
func TestVerifTickShutdown(t *testing.T) {
	p := NewWebSocketPool(8, 8, 20*time.Millisecond)
	// one stale connection in each of several backends, all behind one gate: whichever backend the pass visits
	// first, others are still to come when Shutdown arrives
	entered, gate := make(chan struct{}, 8), make(chan struct{})
	for i, b := range []string{"b", "c", "d", "e", "f"} {
		p.Put(b, &gConn{id: i + 1, entered: entered, gate: gate})
	}
	verifclock.Advance(30 * time.Millisecond) // all stale for the next pass
	select {
	case <-entered:
	case <-time.After(45 * time.Second):
		close(gate)
		t.Skip("the janitor goroutine made no pass within 45 s")
	}
	done := make(chan struct{})
	go func() { p.Shutdown(); close(done) }()
	time.Sleep(200 * time.Millisecond) // Shutdown is running or waiting now
	close(gate)
	select {
	case <-done:
	case <-time.After(5 * time.Second):
		t.Fatalf("VERIF-POOL tick: Shutdown, called while the pool's own janitor goroutine was inside a pass, had not returned 5 s after the pass could go on (deadlock between Shutdown and the janitor)")
	}
	fmt.Println("tick-shutdown done")
}

// TestVerifListSnapshot: a listing that is in progress (held up at one backend whose lock a health transition owns)
// while a removal completes. What the listing answers is a backend set that existed — the one before or the one after
// the removal — for every strategy and every position of the removed backend.
func TestVerifListSnapshot(t *testing.T) {
	for _, strat := range []string{"round_robin", "least_connections", "weighted_round_robin", "ip_hash", "ip_hash_consistent"} {
		for victim := 0; victim < 4; victim++ {
			for hold := 0; hold < 4; hold++ {
				if hold == victim {
					continue
				}
				cfg := &config.Config{}
				cfg.LoadBalancer.Strategy = strat
				names := []string{"a", "b", "c", "d"}
				for _, n := range names {
					cfg.Backends = append(cfg.Backends, config.BackendConfig{Name: n, Address: "http://127.0.0.1:1", Weight: 1})
				}
				lb, err := NewLoadBalancer(cfg)
				if err != nil {
					t.Fatal(err)
				}
				var held *Backend
				for _, b := range lb.strategy.GetBackends() {
					if b.Name == names[hold] {
						held = b
					}
				}
				held.Mutex.Lock()
				got := make(chan []BackendInfo, 1)
				go func() { got <- lb.ListBackends() }()
				time.Sleep(20 * time.Millisecond) // the listing has its snapshot and waits at the held backend
				lb.RemoveBackend(names[victim])
				held.Mutex.Unlock()
				var infos []BackendInfo
				select {
				case infos = <-got:
				case <-time.After(5 * time.Second):
					t.Fatalf("VERIF-ADMIN %s: ListBackends did not return", strat)
				}
				var seen []string
				for _, i := range infos {
					seen = append(seen, i.Name)
				}
				sort.Strings(seen)
				g := strings.Join(seen, ",")
				var after []string
				for i, n := range names {
					if i != victim {
						after = append(after, n)
					}
				}
				if g != "a,b,c,d" && g != strings.Join(after, ",") {
					t.Fatalf("VERIF-ADMIN %s: a listing overlapping remove(%s) answered {%s}: neither the set before the removal {a,b,c,d} nor the set after it {%s}",
						strat, names[victim], g, strings.Join(after, ","))
				}
				lb.Stop()
			}
		}
	}
	fmt.Println("list-snapshot done")
}

// TestVerifShutdownWindow: connections are handed back while Shutdown is in the middle of closing an idle one (its
// Close takes a moment). Whatever Shutdown does with its locks, once it has returned every connection that was
// handed back — to the same or to another backend, accepted or refused — is closed, and the pool holds nothing.
func TestVerifShutdownWindow(t *testing.T) {
	p := NewWebSocketPool(8, 8, time.Hour)
	slow := &gConn{id: 1, entered: make(chan struct{}, 1), gate: make(chan struct{})}
	p.Put("b", slow)
	done := make(chan struct{})
	go func() { p.Shutdown(); close(done) }()
	select {
	case <-slow.entered:
	case <-time.After(3 * time.Second):
		t.Fatalf("VERIF-POOL shutdown-window: Shutdown never closed the idle connection")
	}
	extras := []*gConn{{id: 2}, {id: 3}, {id: 4}}
	accepted := make([]bool, len(extras))
	var wg sync.WaitGroup
	for i, b := range []string{"b", "c", "c"} {
		wg.Add(1)
		go func(i int, b string) {
			defer wg.Done()
			accepted[i] = p.Put(b, extras[i])
		}(i, b)
	}
	putsDone := make(chan struct{})
	go func() { wg.Wait(); close(putsDone) }()
	select {
	case <-putsDone: // Shutdown does not hold the pool's lock while closing
	case <-time.After(200 * time.Millisecond): // it does: the Puts wait for it
	}
	close(slow.gate)
	<-done
	<-putsDone
	for i, c := range extras {
		if !c.closed.Load() {
			t.Fatalf("VERIF-POOL shutdown-window: connection %d, handed back while Shutdown was closing an idle connection (Put answered %v), is still open after Shutdown returned", c.id, accepted[i])
		}
	}
	for _, b := range []string{"b", "c"} {
		if idle, _ := p.Stats(b); idle != 0 {
			t.Fatalf("VERIF-POOL shutdown-window: %d idle connection(s) of %s are still pooled after Shutdown returned", idle, b)
		}
	}
	fmt.Println("shutdown-window done")
}
