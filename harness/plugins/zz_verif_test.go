//go:build verif

package plugins

import (
	"bufio"
	"bytes"
	"compress/gzip"
	"fmt"
	"hash/fnv"
	"io"
	"net/http"
	"net/http/httptest"
	"net/url"
	"os"
	"runtime"
	"sort"
	"strconv"
	"strings"
	"sync"
	"sync/atomic"
	"testing"
	"time"

	"github.com/0xReLogic/Helios/internal/config"
	"github.com/0xReLogic/Helios/internal/logging"
)

func unesc(s string) string {
	if s == "-" {
		return ""
	}
	u, err := url.PathUnescape(s)
	if err != nil {
		return s
	}
	return u
}

var (
	traceMu sync.Mutex
	trace   []string
)

func addTrace(s string) { traceMu.Lock(); trace = append(trace, s); traceMu.Unlock() }

func init() {
	// tracing plugin for the chain-order property: config {"id": n}
	RegisterBuiltin("verif-probe", func(name string, cfg map[string]interface{}) (Middleware, error) {
		id := fmt.Sprint(cfg["id"])
		return func(next http.Handler) http.Handler {
			return http.HandlerFunc(func(w http.ResponseWriter, r *http.Request) {
				addTrace("e" + id)
				next.ServeHTTP(w, r)
				addTrace("x" + id)
			})
		}, nil
	})
}

func chunkBytes(n, seed int) []byte {
	b := make([]byte, n)
	switch seed {
	case 1000:
		copy(b, "Unauthorized\n")
	case 1001:
		copy(b, "Request body too large\n")
	default:
		for i := range b {
			b[i] = byte((seed + i) % 251)
		}
	}
	return b
}

func parseChain(spec string) (config.PluginsConfig, error) {
	pc := config.PluginsConfig{Enabled: true}
	if spec == "none" {
		return pc, nil
	}
	for _, p := range strings.Split(spec, "+") {
		f := strings.Split(p, ".")
		switch f[0] {
		case "sl":
			mr, _ := strconv.Atoi(f[1])
			mp, _ := strconv.Atoi(f[2])
			pc.Chain = append(pc.Chain, config.PluginConfig{Name: "size_limit", Config: map[string]interface{}{"max_request_body": mr, "max_response_body": mp}})
		case "gz":
			lvl, _ := strconv.Atoi(f[1])
			ms, _ := strconv.Atoi(f[2])
			var types []interface{}
			for _, t := range strings.Split(unesc(strings.Join(f[3:], ".")), "|") {
				if t != "" {
					types = append(types, t)
				}
			}
			pc.Chain = append(pc.Chain, config.PluginConfig{Name: "gzip", Config: map[string]interface{}{"level": lvl, "min_size": ms, "content_types": types}})
		case "log":
			pc.Chain = append(pc.Chain, config.PluginConfig{Name: "logging"})
		case "hdr":
			pc.Chain = append(pc.Chain, config.PluginConfig{Name: "headers", Config: map[string]interface{}{
				"set": map[string]interface{}{"X-V-App": "Helios"}, "request_set": map[string]interface{}{"X-V-From": "LB"}}})
		case "auth":
			pc.Chain = append(pc.Chain, config.PluginConfig{Name: "custom-auth", Config: map[string]interface{}{"apiKey": unesc(strings.Join(f[1:], "."))}})
		case "pr":
			pc.Chain = append(pc.Chain, config.PluginConfig{Name: "verif-probe", Config: map[string]interface{}{"id": f[1]}})
		default:
			return pc, fmt.Errorf("bad plugin spec %q", p)
		}
	}
	return pc, nil
}

var quiet sync.Once

// TestVerifDriver: `rw …` lines — one real HTTP exchange each, through the real plugin
// chain (BuildChain) on a real net/http server, observed by a client that does not decode.
func TestVerifDriver(t *testing.T) {
	quiet.Do(func() { logging.Init(config.LoggingConfig{Level: "fatal", Format: "json"}) })
	in, err := os.Open(os.Getenv("VERIF_OPS"))
	if err != nil {
		t.Fatal(err)
	}
	defer in.Close()
	outF, err := os.Create(os.Getenv("VERIF_OUT"))
	if err != nil {
		t.Fatal(err)
	}
	defer outF.Close()
	out := bufio.NewWriter(outF)
	defer out.Flush()
	client := &http.Client{Transport: &http.Transport{DisableCompression: true},
		CheckRedirect: func(*http.Request, []*http.Request) error { return http.ErrUseLastResponse }}

	sc := bufio.NewScanner(in)
	sc.Buffer(make([]byte, 1<<22), 1<<22)
	for sc.Scan() {
		line := sc.Text()
		if line == "" || strings.HasPrefix(line, "#") {
			continue
		}
		w := strings.Fields(line)
		res := "bad-op"
		// an operation still running after 90 s is wedged: say so and stop instead of sitting out
		// the test timeout (the main goroutine is stuck, so nobody else writes to `out`)
		wedged := time.AfterFunc(90*time.Second, func() {
			fmt.Fprintln(out, "hang")
			out.Flush()
			os.Exit(3)
		})
		if len(w) == 8 && w[0] == "rw" {
			res = exchange(client, w[1:])
		} else if len(w) == 2 && w[0] == "rws" {
			if heldSess != nil {
				heldSess.srv.Close()
				heldSess = nil
			}
			if sessProcs > 0 {
				runtime.GOMAXPROCS(sessProcs)
				sessProcs = 0
			}
			if w[1] == "-" {
				res = "ok" // end of the session
			} else {
				// one scheduler thread for the length of the session: whatever a middleware keeps per
				// thread (sync.Pool) is then seen by every exchange, as it is sooner or later in production
				sessProcs = runtime.GOMAXPROCS(1)
				var sres string
				heldSess, sres = newSess(w[1])
				res = sres
			}
		} else if len(w) == 2 && w[0] == "bc" {
			res = buildOnly(w[1])
		}
		wedged.Stop()
		fmt.Fprintln(out, res)
	}
}

// rwSess: one built chain (one instance of every middleware in it) behind a real server. `rw <chain> …`
// uses a fresh one per exchange; `rws <chain>` builds one that the following `rw @ …` exchanges share,
// so that state a middleware keeps between exchanges (pools, caches) is exercised.
type rwSess struct {
	h    http.Handler
	ops  atomic.Value // []string: the script of the current exchange
	srv  *httptest.Server
	mu   sync.Mutex
	done chan struct{}
	once *sync.Once
}

var heldSess *rwSess
var sessProcs int

func newSess(spec string) (*rwSess, string) {
	pc, err := parseChain(spec)
	if err != nil {
		return nil, "bad-op"
	}
	s := &rwSess{}
	s.ops.Store([]string{})
	inner := http.HandlerFunc(func(rw http.ResponseWriter, r *http.Request) {
		addTrace("in")
		n, rerr := io.Copy(io.Discard, r.Body)
		got := strconv.FormatInt(n, 10)
		if rerr != nil {
			got += "!"
		}
		rw.Header().Set("X-Got", got)
		if v := r.Header.Get("X-V-From"); v != "" {
			rw.Header().Set("X-V-Saw", v)
		}
		for _, op := range s.ops.Load().([]string) {
			f := strings.Split(op, ":")
			switch f[0] {
			case "sh":
				rw.Header().Set(f[1], unesc(f[2]))
			case "dh":
				rw.Header().Del(f[1])
			case "wh":
				c, _ := strconv.Atoi(f[1])
				rw.WriteHeader(c)
			case "w":
				n, _ := strconv.Atoi(f[1])
				sd, _ := strconv.Atoi(f[2])
				_, _ = rw.Write(chunkBytes(n, sd))
			case "fl":
				if fl, ok := rw.(http.Flusher); ok {
					fl.Flush()
				}
			case "ab":
				// the exchange is cut short the way ReverseProxy does when a backend dies mid-body
				panic(http.ErrAbortHandler)
			}
		}
	})
	// the chain is built twice from the same configuration value (a handler rebuilt on reload, a second listener):
	// both builds are the configured chain and the configuration is what it was; exchanges alternate between the two
	var before []string
	for _, p := range pc.Chain {
		before = append(before, p.Name)
	}
	h1, err1 := BuildChain(pc, inner)
	h, err := BuildChain(pc, inner)
	if (err1 == nil) != (err == nil) {
		return nil, "builderr-second-build-differs"
	}
	if err != nil {
		return nil, "builderr"
	}
	for i, p := range pc.Chain {
		if i >= len(before) || p.Name != before[i] {
			return nil, "builderr-configuration-changed-by-build"
		}
	}
	verifBuildSeq++
	if verifBuildSeq%2 == 0 {
		h = h1
	}
	s.h = h
	s.srv = httptest.NewServer(http.HandlerFunc(func(rw http.ResponseWriter, r *http.Request) {
		s.mu.Lock()
		d, o := s.done, s.once
		s.mu.Unlock()
		defer o.Do(func() { close(d) })
		s.h.ServeHTTP(rw, r)
	}))
	return s, "ok"
}

func exchange(client *http.Client, w []string) string {
	var s *rwSess
	if w[0] == "@" {
		if heldSess == nil {
			return "bad-op"
		}
		s = heldSess
	} else {
		var res string
		s, res = newSess(w[0])
		if s == nil {
			return res
		}
		defer s.srv.Close()
	}
	ops := strings.Split(w[6], ";")
	s.ops.Store(ops)
	done := make(chan struct{})
	s.mu.Lock()
	s.done, s.once = done, new(sync.Once)
	s.mu.Unlock()
	srv := s.srv
	aborts := false
	for _, op := range ops {
		if op == "ab" {
			aborts = true
		}
	}
	traceMu.Lock()
	trace = nil
	traceMu.Unlock()
	reqLen, _ := strconv.Atoi(w[4])
	var body io.Reader
	if reqLen > 0 || w[5] == "chunked" {
		body = bytes.NewReader(chunkBytes(reqLen, 7))
		if w[5] == "chunked" {
			body = io.NopCloser(body) // unknown length: chunked transfer encoding
		}
	}
	req, err := http.NewRequest(w[1], srv.URL+"/x", body)
	if err != nil {
		return "bad-op"
	}
	if ae := unesc(w[2]); ae != "" {
		req.Header.Set("Accept-Encoding", ae)
	}
	if k := unesc(w[3]); k != "" {
		req.Header.Set("X-API-Key", k)
	}
	resp, err := client.Do(req)
	if aborts {
		// what the client sees of a cut exchange is not compared; what matters is the next one
		if err == nil {
			_, _ = io.Copy(io.Discard, resp.Body)
			resp.Body.Close()
		}
		select {
		case <-done:
		case <-time.After(5 * time.Second):
		}
		return "aborted"
	}
	if err != nil {
		return "clienterr " + strings.ReplaceAll(err.Error(), " ", "_")
	}
	raw, rerr := io.ReadAll(resp.Body)
	resp.Body.Close()
	short := 0
	if rerr != nil {
		short = 1
	}
	gz := 0
	data := raw
	ce := resp.Header.Get("Content-Encoding")
	if ce == "gzip" && len(raw) > 0 {
		zr, e := gzip.NewReader(bytes.NewReader(raw))
		if e == nil {
			dec, e2 := io.ReadAll(zr)
			if e2 == nil {
				gz, data = 1, dec
			} else {
				gz = 2
			}
		} else {
			gz = 2
		}
	}
	hsh := fnv.New32a()
	_, _ = hsh.Write(data)
	var xh []string
	for k, v := range resp.Header {
		if strings.HasPrefix(k, "X-V-") || k == "X-Got" {
			xh = append(xh, k+"="+url.PathEscape(strings.Join(v, ",")))
		}
	}
	sort.Strings(xh)
	enc := func(s string) string {
		if s == "" {
			return "-"
		}
		return url.PathEscape(s)
	}
	<-done // the handler may still be unwinding after the client has the whole response
	traceMu.Lock()
	tr := strings.Join(trace, ",")
	traceMu.Unlock()
	return fmt.Sprintf("status=%d ce=%s ct=%s xh=%s body=%d:%d gz=%d short=%d trace=%s",
		resp.StatusCode, enc(ce), enc(resp.Header.Get("Content-Type")), strings.Join(xh, "&"), len(data), hsh.Sum32(), gz, short, tr)
}

var verifBuildSeq int

// buildOnly: `bc name@k=T:v@…+name…` — does BuildChain accept this configuration?
func buildOnly(spec string) string {
	pc := config.PluginsConfig{Enabled: true}
	for _, p := range strings.Split(spec, "+") {
		f := strings.Split(p, "@")
		cfg := map[string]interface{}{}
		for _, kv := range f[1:] {
			k, tv, _ := strings.Cut(kv, "=")
			t, v, _ := strings.Cut(tv, ":")
			v = unesc(v)
			switch t {
			case "i":
				n, _ := strconv.Atoi(v)
				cfg[k] = n
			case "f":
				x, _ := strconv.ParseFloat(v, 64)
				cfg[k] = x
			case "s":
				cfg[k] = v
			case "l":
				l := []interface{}{}
				for _, e := range strings.Split(v, "|") {
					if e != "" {
						l = append(l, e)
					}
				}
				cfg[k] = l
			case "x":
				cfg[k] = []interface{}{"text/", 7}
			case "m":
				m := map[string]interface{}{}
				for _, e := range strings.Split(v, "|") {
					if a, b, ok := strings.Cut(e, ":"); ok {
						m[a] = b
					}
				}
				cfg[k] = m
			case "b":
				cfg[k] = map[string]interface{}{"X-A": 1}
			case "B":
				cfg[k] = true
			}
		}
		pc.Chain = append(pc.Chain, config.PluginConfig{Name: f[0], Config: cfg})
	}
	h, err := BuildChain(pc, http.HandlerFunc(func(http.ResponseWriter, *http.Request) {}))
	if err != nil || h == nil {
		return "err"
	}
	return "ok"
}
