import itertools, random, sys
from fractions import Fraction
# state: tuple of (w, cw, healthy)
def pick(st):
    st=[list(x) for x in st]
    tot=0; best=None
    for i,x in enumerate(st):
        if x[2]:
            tot+=x[0]; x[1]+=x[0]
            if best is None or x[1]>st[best][1]: best=i
    if best is None: return tuple(map(tuple,st)),None
    st[best][1]-=tot
    return tuple(map(tuple,st)),best

def explore(weights, allow_member=False, depth=200000):
    init=tuple((w,0,True) for w in weights)
    seen={init}; frontier=[init]; maxabs=0; W=sum(weights); worst=None
    while frontier and len(seen)<depth:
        nf=[]
        for s in frontier:
            succ=[]
            s2,_=pick(s); succ.append(s2)
            for i in range(len(s)):
                t=list(s); t[i]=(s[i][0],s[i][1],not s[i][2]); succ.append(tuple(t))
            for t in succ:
                if t not in seen:
                    seen.add(t); nf.append(t)
                    m=max(abs(x[1]) for x in t)
                    if m>maxabs: maxabs=m; worst=t
        frontier=nf
    return maxabs,W,len(seen),worst,bool(frontier)
for ws in [(1,1),(1,2),(1,3),(2,3),(1,1,1),(1,2,3),(5,2,1),(1,1,4),(3,3,1),(1,6,6),(1,1,1,1),(1,2,3,4),(6,1,1,1)]:
    print(ws, explore(ws))
