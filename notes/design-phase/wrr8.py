import random, itertools
def fresh_traj(ws):
    n=len(ws); W=sum(ws); c=[0]*n; tr=[tuple(c)]
    for k in range(W):
        for i in range(n): c[i]+=ws[i]
        b=0
        for i in range(1,n):
            if c[i]>c[b]: b=i
        c[b]-=W; tr.append(tuple(c))
    return tr,W
def worst_window(ws):
    tr,W=fresh_traj(ws); n=len(ws); worst=0
    for i in range(n):
        col=[t[i] for t in tr[:-1]]
        # periodic: any ordered pair (a,b) is a window (possibly wrapping) => deviation = |col[a]-col[b]|/W
        d=(max(col)-min(col))/W
        worst=max(worst,d)
    return worst
random.seed(2)
cases=[]
for n in range(1,6):
    for ws in itertools.product(range(1,8),repeat=n): cases.append(ws)
for _ in range(30000):
    n=random.randint(2,14); cases.append(tuple(random.choice([1,1,1,2,3,5,10,20,50,100,1000]) for _ in range(n)))
best=(0,None)
for ws in cases:
    if sum(ws)>6000: continue
    d=worst_window(ws)
    if d>best[0]: best=(d,ws)
print(len(cases),"max window deviation (in requests) over fresh periodic runs:",best)
