import random, itertools, sys
def fresh_run_extremes(ws):
    n=len(ws); W=sum(ws); c=[0]*n; lo=0; hi=0; worst=None
    for k in range(W):
        for i in range(n): c[i]+=ws[i]
        b=max(range(n), key=lambda i:(c[i],-i))
        c[b]-=W
        for i in range(n):
            if c[i]/W>hi: hi=c[i]/W; worst=(k,i,list(c))
            if c[i]/W<lo: lo=c[i]/W
    assert all(x==0 for x in c)
    return lo,hi,worst
best=(0,None); bestlo=(0,None)
random.seed(1)
cases=[]
for n in range(1,6):
    for ws in itertools.product(range(1,8),repeat=n): cases.append(ws)
for _ in range(20000):
    n=random.randint(2,12); cases.append(tuple(random.choice([1,1,1,2,3,5,10,20,50,100]) for _ in range(n)))
for ws in cases:
    lo,hi,w=fresh_run_extremes(ws)
    if hi>best[0]: best=(hi,(ws,w))
    if lo<bestlo[0]: bestlo=(lo,ws)
print("cases",len(cases)); print("max cw/W in fresh runs:",best); print("min cw/W:",bestlo)
