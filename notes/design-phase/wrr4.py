import sys, itertools
from fractions import Fraction
def step(c, weights, E):
    d=list(c); tot=0; best=None
    for i in E:
        tot+=weights[i]; d[i]+=weights[i]
        if best is None or d[i]>d[best]: best=i
    d[best]-=tot
    return tuple(d),best
def reach(weights):
    n=len(weights); init=tuple([0]*n); seen={init}; fr=[init]
    subsets=[[i for i in range(n) if m>>i&1] for m in range(1,1<<n)]
    while fr:
        nf=[]
        for c in fr:
            for E in subsets:
                t,_=step(c,weights,E)
                if t not in seen: seen.add(t); nf.append(t)
        fr=nf
    return seen,subsets
def worst_window(weights):
    R,subsets=reach(weights); W=sum(weights); worst=(Fraction(0),None)
    for E in subsets:
        WE=sum(weights[i] for i in E)
        for s in R:
            c=s; seenrun={}
            k=0
            # run until state repeats
            while c not in seenrun:
                seenrun[c]=k
                for i in E:
                    dev=Fraction(abs(s[i]-c[i]),WE)   # |count - share| over window [0,k)
                    ratio=dev/ (Fraction(2*W,WE))
                    if ratio>worst[0]: worst=(ratio,(s,E,k,i,float(dev)))
                c,_=step(c,weights,E); k+=1
    return worst,len(R)
for ws in [(1,1),(1,2,3),(5,2,1),(6,1,1,1),(10,1,1,1),(1,6,6),(3,1,1,1,1),(4,3,2,1,1)]:
    print(ws, worst_window(ws)); sys.stdout.flush()
