import sys
from wrr import pick
def reach_cw(weights, cap=3_000_000):
    # state = cw vector only; step = pick with arbitrary nonempty subset E
    n=len(weights); init=tuple([0]*n); seen={init}; fr=[init]; W=sum(weights); mx=0; worst=None
    subsets=[[i for i in range(n) if m>>i&1] for m in range(1,1<<n)]
    while fr and len(seen)<cap:
        nf=[]
        for c in fr:
            for E in subsets:
                d=list(c); tot=0; best=None
                for i in E:
                    tot+=weights[i]; d[i]+=weights[i]
                    if best is None or d[i]>d[best]: best=i
                d[best]-=tot; t=tuple(d)
                if t not in seen:
                    seen.add(t); nf.append(t)
                    m=max(abs(x) for x in t)
                    if m>mx: mx=m; worst=t
        fr=nf
    return mx,W,len(seen),worst,bool(fr)
for ws in [(10,1,1,1),(6,1,1,1,1),(3,1,1,1,1),(1,1,1,1,1),(2,2,2,1,1),(4,3,2,1,1),(1,1,1,1,1,1),(9,1,1,1,1)]:
    print(ws, reach_cw(ws)); sys.stdout.flush()
