package loadbalancer

// Demonstration (C11): AddBackend accepts a name that is already present; RemoveBackend
// removes only the first backend of that name, so after "remove" returns a backend of
// that name is still listed and still receives requests.

import (
	"testing"

	"github.com/0xReLogic/Helios/internal/config"
)

func TestVerifDemoDuplicateNames(t *testing.T) {
	cfg := &config.Config{}
	cfg.LoadBalancer.Strategy = "round_robin"
	cfg.Backends = []config.BackendConfig{{Name: "a", Address: "http://127.0.0.1:1"}}
	lb, _ := NewLoadBalancer(cfg)
	_ = lb.AddBackend(config.BackendConfig{Name: "dup", Address: "http://127.0.0.1:2"})
	_ = lb.AddBackend(config.BackendConfig{Name: "dup", Address: "http://127.0.0.1:3"})
	lb.RemoveBackend("dup")
	for _, b := range lb.ListBackends() {
		if b.Name == "dup" {
			t.Fatalf("backend %q (%s) still listed after RemoveBackend returned", b.Name, b.Address)
		}
	}
}
