package circuitbreaker

// Demonstration (C07): callers arriving while the breaker moves from open to half-open are
// all admitted, because the admission check and the trial counter live in different
// critical sections. max_requests = 1. The schedule is forced with the state-change
// callback: while the first caller performs the transition, three more callers arrive.

import (
	"errors"
	"sync"
	"sync/atomic"
	"testing"
	"time"
)

func TestVerifDemoHalfOpenAdmission(t *testing.T) {
	var entered int32
	release := make(chan struct{})
	var wg sync.WaitGroup
	trial := func() error {
		atomic.AddInt32(&entered, 1)
		<-release
		return nil
	}
	var cb *CircuitBreaker
	cb = NewCircuitBreaker(Settings{Name: "d", FailureThreshold: 1, SuccessThreshold: 1,
		MaxRequests: 1, Timeout: time.Millisecond,
		OnStateChange: func(_ string, _ State, to State) {
			if to != StateHalfOpen {
				return
			}
			for i := 0; i < 3; i++ {
				wg.Add(1)
				go func() { defer wg.Done(); _ = cb.Execute(trial) }()
			}
			time.Sleep(20 * time.Millisecond) // let them arrive
		}})
	_ = cb.Execute(func() error { return errors.New("boom") })
	time.Sleep(3 * time.Millisecond)
	wg.Add(1)
	go func() { defer wg.Done(); _ = cb.Execute(trial) }()
	time.Sleep(100 * time.Millisecond)
	n := atomic.LoadInt32(&entered)
	close(release)
	wg.Wait()
	if n > 1 {
		t.Fatalf("%d trial requests admitted with max_requests=1", n)
	}
}
