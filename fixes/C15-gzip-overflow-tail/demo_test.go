package plugins

// Demonstration (C15): once the 10MB buffering cap is exceeded the gzip writer streams the
// buffer and the current chunk uncompressed, but its buffer is empty again, so the *next*
// chunks are buffered anew - and Finish returns early because the cap was exceeded: the
// tail of every response larger than 10MB that is written in several chunks (as
// ReverseProxy does, 32KB at a time) is dropped.

import (
	"io"
	"net/http"
	"net/http/httptest"
	"testing"

	"github.com/0xReLogic/Helios/internal/config"
)

func TestVerifDemoGzipOverflowTail(t *testing.T) {
	const total = 11 * 1024 * 1024
	chunk := make([]byte, 32*1024)
	h := http.HandlerFunc(func(w http.ResponseWriter, r *http.Request) {
		w.Header().Set("Content-Type", "text/plain")
		for sent := 0; sent < total; sent += len(chunk) {
			_, _ = w.Write(chunk)
		}
	})
	chain, err := BuildChain(config.PluginsConfig{Enabled: true, Chain: []config.PluginConfig{{Name: "gzip",
		Config: map[string]interface{}{"level": 1.0, "min_size": 100.0, "content_types": []interface{}{"text/plain"}}}}}, h)
	if err != nil {
		t.Fatal(err)
	}
	srv := httptest.NewServer(chain)
	defer srv.Close()
	req, _ := http.NewRequest("GET", srv.URL, nil)
	req.Header.Set("Accept-Encoding", "gzip")
	c := &http.Client{Transport: &http.Transport{DisableCompression: true}}
	resp, err := c.Do(req)
	if err != nil {
		t.Fatal(err)
	}
	n, _ := io.Copy(io.Discard, resp.Body)
	resp.Body.Close()
	if resp.Header.Get("Content-Encoding") == "" && n != total {
		t.Fatalf("backend sent %d bytes, client received %d (identity encoding)", total, n)
	}
}
