package plugins

// Demonstration (C14): with size_limit enabled a recorded status is only forwarded by a
// later Write, so bodiless responses (204, 304, redirects, empty errors, HEAD) reach the
// client as 200, and a Flush before the first write commits 200 as well.

import (
	"net/http"
	"net/http/httptest"
	"testing"

	"github.com/0xReLogic/Helios/internal/config"
)

func TestVerifDemoSizeLimitStatus(t *testing.T) {
	cases := map[string]http.HandlerFunc{
		"204":       func(w http.ResponseWriter, r *http.Request) { w.WriteHeader(204) },
		"302":       func(w http.ResponseWriter, r *http.Request) { w.Header().Set("Location", "/x"); w.WriteHeader(302) },
		"201+flush": func(w http.ResponseWriter, r *http.Request) { w.WriteHeader(201); w.(http.Flusher).Flush(); _, _ = w.Write([]byte("ok")) },
	}
	want := map[string]int{"204": 204, "302": 302, "201+flush": 201}
	for name, h := range cases {
		chain, err := BuildChain(config.PluginsConfig{Enabled: true, Chain: []config.PluginConfig{{Name: "size_limit", Config: map[string]interface{}{}}}}, h)
		if err != nil {
			t.Fatal(err)
		}
		srv := httptest.NewServer(chain)
		c := &http.Client{CheckRedirect: func(*http.Request, []*http.Request) error { return http.ErrUseLastResponse }}
		resp, err := c.Get(srv.URL)
		if err != nil {
			t.Fatal(err)
		}
		resp.Body.Close()
		srv.Close()
		if resp.StatusCode != want[name] {
			t.Errorf("%s: handler status %d reached the client as %d", name, want[name], resp.StatusCode)
		}
	}
}
