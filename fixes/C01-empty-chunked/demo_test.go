package loadbalancer

// Demonstration (C01): a backend sends a response without a declared length and with an
// empty body (Transfer-Encoding: chunked, no chunks). Through Helios the client receives
// "Content-Length: 0" instead (most of the time: the only thing that could send the header
// un-lengthed is ReverseProxy's asynchronous initial flush, which races with the end of the
// handler) - the response is re-framed.
//
// Run: copy into internal/loadbalancer and `go test -run TestVerifDemoEmptyChunked`.

import (
	"bufio"
	"fmt"
	"net"
	"net/http"
	"net/http/httptest"
	"strings"
	"testing"
	"time"

	"github.com/0xReLogic/Helios/internal/config"
)

func TestVerifDemoEmptyChunked(t *testing.T) {
	be := httptest.NewServer(http.HandlerFunc(func(w http.ResponseWriter, r *http.Request) {
		w.Header().Set("Content-Type", "application/json")
		w.WriteHeader(200)
		w.(http.Flusher).Flush() // header goes out un-lengthed; no body follows
	}))
	defer be.Close()
	cfg := &config.Config{}
	cfg.LoadBalancer.Strategy = "round_robin"
	cfg.Backends = []config.BackendConfig{{Name: "b0", Address: be.URL}}
	lb, _ := NewLoadBalancer(cfg)
	defer lb.Stop()
	front := httptest.NewServer(lb)
	defer front.Close()

	framing := func(addr string) string {
		c, err := net.DialTimeout("tcp", addr, time.Second)
		if err != nil {
			return "dial: " + err.Error()
		}
		defer c.Close()
		_ = c.SetDeadline(time.Now().Add(3 * time.Second))
		fmt.Fprintf(c, "GET / HTTP/1.1\r\nHost: x\r\nConnection: close\r\n\r\n")
		resp, err := http.ReadResponse(bufio.NewReader(c), nil)
		if err != nil {
			return "no response: " + err.Error()
		}
		if len(resp.TransferEncoding) > 0 {
			return strings.Join(resp.TransferEncoding, ",")
		}
		return fmt.Sprintf("content-length:%d", resp.ContentLength)
	}
	direct := framing(be.Listener.Addr().String())
	for i := 0; i < 3000; i++ {
		if via := framing(front.Listener.Addr().String()); via != direct {
			t.Fatalf("directly the response is framed %q, through Helios %q (attempt %d)", direct, via, i)
		}
	}
}
