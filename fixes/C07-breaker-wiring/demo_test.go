package loadbalancer

// Demonstration (C07): with the circuit breaker enabled and failure_threshold = 2, a
// backend that answers 500 to everything never trips the breaker, because handleRequest
// reports success whatever the proxied response was. The backend keeps being contacted.

import (
	"net/http"
	"net/http/httptest"
	"sync/atomic"
	"testing"

	"github.com/0xReLogic/Helios/internal/config"
)

func TestVerifDemoBreakerWiring(t *testing.T) {
	var hits int32
	be := httptest.NewServer(http.HandlerFunc(func(w http.ResponseWriter, r *http.Request) {
		atomic.AddInt32(&hits, 1)
		w.WriteHeader(500)
	}))
	defer be.Close()
	cfg := &config.Config{}
	cfg.LoadBalancer.Strategy = "round_robin"
	cfg.Backends = []config.BackendConfig{{Name: "b0", Address: be.URL}}
	cfg.CircuitBreaker = config.CircuitBreakerConfig{Enabled: true, FailureThreshold: 2, SuccessThreshold: 1,
		MaxRequests: 1, IntervalSeconds: 60, TimeoutSeconds: 60}
	lb, _ := NewLoadBalancer(cfg)
	codes := []int{}
	for i := 0; i < 5; i++ {
		rec := httptest.NewRecorder()
		lb.ServeHTTP(rec, httptest.NewRequest("GET", "/", nil))
		codes = append(codes, rec.Code)
	}
	if h := atomic.LoadInt32(&hits); h != 2 {
		t.Fatalf("backend contacted %d times (want 2: the breaker must open after 2 failures); codes %v", h, codes)
	}
	m := lb.GetMetricsCollector().GetMetrics()
	if m.TotalRequests != m.SuccessfulRequests+m.FailedRequests+m.RateLimitedRequests {
		t.Fatalf("counters do not add up: total=%d ok=%d failed=%d", m.TotalRequests, m.SuccessfulRequests, m.FailedRequests)
	}
}
