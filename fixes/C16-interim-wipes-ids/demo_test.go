package main

// Demonstration (C16, C01): the request-context middleware sets X-Request-ID / X-Trace-ID on
// the response header map before calling the chain. When the backend sends a 1xx interim
// response (103 Early Hints), httputil.ReverseProxy forwards it and then clears the header
// map, so the identifiers travel with the 103 and the final response reaches the client
// without them.
//
// Run: copy into cmd/helios and `go test -run TestVerifDemoInterimWipesIDs`.

import (
	"bufio"
	"fmt"
	"net"
	"net/http"
	"net/http/httptest"
	"testing"
	"time"

	"github.com/0xReLogic/Helios/internal/config"
	"github.com/0xReLogic/Helios/internal/loadbalancer"
)

func TestVerifDemoInterimWipesIDs(t *testing.T) {
	be := httptest.NewServer(http.HandlerFunc(func(w http.ResponseWriter, r *http.Request) {
		w.Header().Set("Link", "</style.css>; rel=preload")
		w.WriteHeader(103)
		w.Header().Set("Content-Type", "text/plain")
		_, _ = w.Write([]byte("ok"))
	}))
	defer be.Close()
	cfg := &config.Config{}
	cfg.LoadBalancer.Strategy = "round_robin"
	cfg.Backends = []config.BackendConfig{{Name: "b0", Address: be.URL}}
	cfg.Logging.RequestID.Enabled = true
	cfg.Logging.Trace.Enabled = true
	lb, _ := loadbalancer.NewLoadBalancer(cfg)
	defer lb.Stop()
	h, err := buildHandler(cfg, lb)
	if err != nil {
		t.Fatal(err)
	}
	front := httptest.NewServer(h)
	defer front.Close()

	c, err := net.DialTimeout("tcp", front.Listener.Addr().String(), time.Second)
	if err != nil {
		t.Fatal(err)
	}
	defer c.Close()
	_ = c.SetDeadline(time.Now().Add(3 * time.Second))
	fmt.Fprintf(c, "GET / HTTP/1.1\r\nHost: x\r\nX-Request-ID: abc\r\nConnection: close\r\n\r\n")
	br := bufio.NewReader(c)
	for {
		resp, err := http.ReadResponse(br, nil)
		if err != nil {
			t.Fatal(err)
		}
		if resp.StatusCode == 103 {
			continue
		}
		if got := resp.Header.Get("X-Request-ID"); got != "abc" {
			t.Errorf("final response: X-Request-ID = %q, want the supplied \"abc\"", got)
		}
		if resp.Header.Get("X-Trace-ID") == "" {
			t.Errorf("final response carries no X-Trace-ID although tracing is enabled")
		}
		return
	}
}
