package main

// Demonstration for C16 (copy into cmd/helios/): a backend that stamps its answers with an X-Request-ID of its
// own and sends an interim response (103 Early Hints) first. Without the interim response the client gets the
// propagated identifier followed by the backend's line. After an interim response httputil.ReverseProxy has
// cleared the header map; the identifiers were put back only "when missing", and the backend's own header made
// the request ID look present: the client got the backend's value alone — not the identifier the backend was sent.
//
//	go test ./cmd/helios -run TestVerifIDBehindBackendHeader

import (
	"net/http"
	"net/http/httptest"
	"testing"

	"github.com/0xReLogic/Helios/internal/config"
	"github.com/0xReLogic/Helios/internal/loadbalancer"
)

func TestVerifIDBehindBackendHeader(t *testing.T) {
	for _, interim := range []bool{false, true} {
		var seen string
		be := httptest.NewServer(http.HandlerFunc(func(w http.ResponseWriter, r *http.Request) {
			seen = r.Header.Get("X-Request-ID")
			if interim {
				w.Header().Set("Link", "</s.css>; rel=preload")
				w.WriteHeader(http.StatusEarlyHints)
			}
			w.Header().Set("X-Request-ID", "backend-own-id")
			w.WriteHeader(http.StatusOK)
		}))
		cfg := &config.Config{}
		cfg.Server.Port = 8080
		cfg.Backends = []config.BackendConfig{{Name: "b", Address: be.URL, Weight: 1}}
		cfg.LoadBalancer.Strategy = "round_robin"
		cfg.Logging.RequestID.Enabled = true
		lb, err := loadbalancer.NewLoadBalancer(cfg)
		if err != nil {
			t.Fatal(err)
		}
		h, err := buildHandler(cfg, lb)
		if err != nil {
			t.Fatal(err)
		}
		fe := httptest.NewServer(h)
		resp, err := http.Get(fe.URL + "/")
		if err != nil {
			t.Fatal(err)
		}
		got := resp.Header.Values("X-Request-ID")
		resp.Body.Close()
		if seen == "" || len(got) == 0 || got[0] != seen {
			t.Errorf("interim=%v: the backend was sent request ID %q, the client got %q", interim, seen, got)
		}
		fe.Close()
		lb.Stop()
		be.Close()
	}
}
