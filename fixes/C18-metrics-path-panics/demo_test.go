// Demonstration (copy into cmd/helios/, package main): a metrics path that validation accepts
// makes the process panic while it starts the metrics server — `metrics.path: /health` collides
// with the health endpoint registered on the same mux, a path without a leading slash is not a
// ServeMux pattern. C18: an accepted configuration starts a working proxy or fails with a clear
// error; it never panics. On the repaired tree validation rejects both.
package main

import (
	"fmt"
	"testing"

	"github.com/0xReLogic/Helios/internal/config"
	"github.com/0xReLogic/Helios/internal/loadbalancer"
)

func TestAcceptedMetricsPathPanicsAtStartup(t *testing.T) {
	for _, path := range []string{"/health", "metrics", "stats/"} {
		cfg := &config.Config{}
		cfg.Server.Port = 8080
		cfg.Backends = []config.BackendConfig{{Name: "b0", Address: "http://127.0.0.1:9"}}
		cfg.Metrics = config.MetricsConfig{Enabled: true, Port: 0, Path: path}
		cfg.Metrics.Port = 39091
		if err := cfg.Validate(); err != nil {
			t.Logf("path %q rejected by validation (repaired tree): %v", path, err)
			continue
		}
		lb, err := loadbalancer.NewLoadBalancer(cfg)
		if err != nil {
			t.Fatal(err)
		}
		func() {
			defer lb.Stop()
			defer func() {
				if r := recover(); r != nil {
					t.Errorf("accepted configuration metrics.path=%q: startup panics: %v", path, fmt.Sprint(r))
				}
			}()
			setupMetricsServer(cfg, lb)
		}()
	}
}
