package loadbalancer

// Demonstration for C02/C04 defects (place in internal/loadbalancer/, run
// `go test -run TestVerifDemoEligibility`):
//  * least_connections: an ejected idle backend has the minimal gauge, so every retry picks
//    it and the client gets 503 although another backend is healthy;
//  * round_robin: three adjacent ejected backends exhaust the 3 retries -> 503;
//  * weighted_round_robin / ip_hash / ip_hash_consistent: once ejected, the stale flag is
//    never re-examined, so after the unhealthy window the backend never gets traffic again.

import (
	"fmt"
	"net/http"
	"net/http/httptest"
	"testing"
	"time"

	"github.com/0xReLogic/Helios/internal/config"
)

func demoLB(t *testing.T, strategy string, n int) (*LoadBalancer, []*httptest.Server) {
	t.Helper()
	var srvs []*httptest.Server
	cfg := &config.Config{}
	cfg.LoadBalancer.Strategy = strategy
	for i := 0; i < n; i++ {
		s := httptest.NewServer(http.HandlerFunc(func(w http.ResponseWriter, r *http.Request) { w.WriteHeader(200) }))
		srvs = append(srvs, s)
		cfg.Backends = append(cfg.Backends, config.BackendConfig{Name: fmt.Sprintf("b%d", i), Address: s.URL, Weight: 1})
	}
	lb, err := NewLoadBalancer(cfg)
	if err != nil {
		t.Fatal(err)
	}
	return lb, srvs
}

func demoStatus(lb *LoadBalancer) int {
	rec := httptest.NewRecorder()
	req := httptest.NewRequest("GET", "/", nil)
	req.RemoteAddr = "10.1.2.3:4567"
	lb.ServeHTTP(rec, req)
	return rec.Code
}

func TestVerifDemoEligibility(t *testing.T) {
	t.Run("least_connections_idle_ejected", func(t *testing.T) {
		lb, srvs := demoLB(t, "least_connections", 2)
		defer func() { for _, s := range srvs { s.Close() } }()
		bs := lb.strategy.GetBackends()
		lb.MarkBackendUnhealthy(bs[0], time.Hour)
		bs[1].IncrementConnections() // the healthy backend is busy
		if c := demoStatus(lb); c != 200 {
			t.Fatalf("got %d while backend b1 is healthy", c)
		}
	})
	t.Run("round_robin_three_adjacent_ejected", func(t *testing.T) {
		lb, srvs := demoLB(t, "round_robin", 4)
		defer func() { for _, s := range srvs { s.Close() } }()
		bs := lb.strategy.GetBackends()
		for _, i := range []int{1, 2, 3} {
			lb.MarkBackendUnhealthy(bs[i], time.Hour)
		}
		for k := 0; k < 4; k++ {
			if c := demoStatus(lb); c != 200 {
				t.Fatalf("request %d: got %d while backend b0 is healthy", k, c)
			}
		}
	})
	for _, s := range []string{"weighted_round_robin", "ip_hash", "ip_hash_consistent"} {
		t.Run(s+"_recovers_after_window", func(t *testing.T) {
			lb, srvs := demoLB(t, s, 1)
			defer func() { for _, s := range srvs { s.Close() } }()
			bs := lb.strategy.GetBackends()
			lb.MarkBackendUnhealthy(bs[0], 20*time.Millisecond)
			time.Sleep(60 * time.Millisecond)
			if c := demoStatus(lb); c != 200 {
				t.Fatalf("got %d after the unhealthy window elapsed", c)
			}
		})
	}
}
