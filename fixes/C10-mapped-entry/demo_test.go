package adminapi

// Demonstration for C10 (copy into internal/adminapi/): a single-address list entry written in the
// IPv4-mapped IPv6 form. Before the fix parseCIDR appended "/32" to the TEXT of the entry
// ("::ffff:10.0.0.5/32"), which net.ParseCIDR reads as the IPv6 network ::/32: a deny entry did not
// deny the host it names, and an allow entry admitted ::1 and every other address whose first 32 bits
// are zero instead.
//
//	go test ./internal/adminapi -run TestVerifMappedEntry

import "testing"

func TestVerifMappedEntry(t *testing.T) {
	deny, err := NewIPFilter(nil, []string{"::ffff:10.0.0.5"})
	if err != nil {
		t.Fatal(err)
	}
	for _, peer := range []string{"10.0.0.5", "::ffff:10.0.0.5", "::ffff:a00:5"} {
		if deny.IsAllowed(peer) {
			t.Errorf("deny list [::ffff:10.0.0.5]: peer %s is served", peer)
		}
	}
	for _, peer := range []string{"::1", "0:0:1::5", "10.0.0.6"} {
		if !deny.IsAllowed(peer) {
			t.Errorf("deny list [::ffff:10.0.0.5]: peer %s, which is not listed, is refused", peer)
		}
	}
	allow, err := NewIPFilter([]string{"::ffff:10.0.0.5"}, nil)
	if err != nil {
		t.Fatal(err)
	}
	if !allow.IsAllowed("10.0.0.5") {
		t.Errorf("allow list [::ffff:10.0.0.5]: the listed host is refused")
	}
	for _, peer := range []string{"::1", "0:0:1::5", "10.0.0.6"} {
		if allow.IsAllowed(peer) {
			t.Errorf("allow list [::ffff:10.0.0.5]: peer %s, which is not listed, is served", peer)
		}
	}
}
