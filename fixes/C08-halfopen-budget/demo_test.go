package loadbalancer

// Demonstration (C08): configuration validation accepts success_threshold: 2 with
// max_requests unset (the loader's own "valid config" test case); max_requests then
// defaults to 1, so in half-open one trial is admitted, succeeds, and the breaker can
// neither close (needs 2 successes) nor admit anything else: traffic is refused forever
// although the backend is healthy again.

import (
	"net/http"
	"net/http/httptest"
	"sync/atomic"
	"testing"
	"time"

	"github.com/0xReLogic/Helios/internal/config"
)

func TestVerifDemoHalfOpenBudget(t *testing.T) {
	var fail int32 = 1
	be := httptest.NewServer(http.HandlerFunc(func(w http.ResponseWriter, r *http.Request) {
		if atomic.LoadInt32(&fail) == 1 {
			w.WriteHeader(500)
		}
	}))
	defer be.Close()
	cfg := &config.Config{}
	cfg.Server.Port = 8080
	cfg.LoadBalancer.Strategy = "round_robin"
	cfg.Backends = []config.BackendConfig{{Name: "b0", Address: be.URL}}
	cfg.CircuitBreaker = config.CircuitBreakerConfig{Enabled: true, FailureThreshold: 1, SuccessThreshold: 2,
		IntervalSeconds: 60, TimeoutSeconds: 1}
	if err := cfg.Validate(); err != nil {
		t.Skipf("configuration rejected: %v", err)
	}
	lb, _ := NewLoadBalancer(cfg)
	do := func() int {
		rec := httptest.NewRecorder()
		lb.ServeHTTP(rec, httptest.NewRequest("GET", "/", nil))
		return rec.Code
	}
	do() // trips
	atomic.StoreInt32(&fail, 0)
	time.Sleep(1100 * time.Millisecond)
	codes := []int{}
	for i := 0; i < 6; i++ {
		codes = append(codes, do())
	}
	if codes[5] != 200 {
		t.Fatalf("backend healthy again, but the breaker never closes: %v", codes)
	}
}
