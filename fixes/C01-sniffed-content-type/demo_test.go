package loadbalancer

// Demonstration (C01): a backend response without a Content-Type header reaches the client
// with one: ReverseProxy copies the (absent) header, and Helios' own net/http server sniffs the
// first body bytes and adds "Content-Type: application/octet-stream" (or text/plain, ...).
// The client receives a header the backend did not produce.
//
// Run: copy into internal/loadbalancer and `go test -run TestVerifDemoSniffedContentType`.

import (
	"io"
	"net/http"
	"net/http/httptest"
	"testing"

	"github.com/0xReLogic/Helios/internal/config"
)

func TestVerifDemoSniffedContentType(t *testing.T) {
	be := httptest.NewServer(http.HandlerFunc(func(w http.ResponseWriter, r *http.Request) {
		// an origin that sends no Content-Type at all (headers go out before any body byte)
		w.Header().Set("Content-Length", "4")
		w.WriteHeader(200)
		w.(http.Flusher).Flush()
		_, _ = w.Write([]byte{0x00, 0x01, 0x02, 0x03})
	}))
	defer be.Close()
	cfg := &config.Config{}
	cfg.LoadBalancer.Strategy = "round_robin"
	cfg.Backends = []config.BackendConfig{{Name: "b0", Address: be.URL}}
	lb, _ := NewLoadBalancer(cfg)
	defer lb.Stop()
	front := httptest.NewServer(lb)
	defer front.Close()

	direct, err := http.Get(be.URL + "/blob")
	if err != nil {
		t.Fatal(err)
	}
	_, _ = io.Copy(io.Discard, direct.Body)
	direct.Body.Close()
	via, err := http.Get(front.URL + "/blob")
	if err != nil {
		t.Fatal(err)
	}
	_, _ = io.Copy(io.Discard, via.Body)
	via.Body.Close()
	if _, has := direct.Header["Content-Type"]; has {
		t.Skipf("backend itself sent a Content-Type: %q", direct.Header.Get("Content-Type"))
	}
	if ct, has := via.Header["Content-Type"]; has {
		t.Fatalf("backend sent no Content-Type, the client received %q", ct)
	}
}
