package loadbalancer

// Demonstration (C01): ReverseProxy's default FlushInterval (0) only streams responses it
// recognises as streams (unknown length or text/event-stream). A backend that declares a
// Content-Length, writes part of the body, flushes and pauses is not forwarded until the
// response ends (or 4 KiB accumulate): the bytes the backend flushed wait for the end of the
// response. The same buffering drops the whole response when the backend then fails
// (mis-declared length): the client directly sees status + short body, through Helios nothing.
//
// Run: copy into internal/loadbalancer and `go test -run TestVerifDemoFlushDeclared`.

import (
	"io"
	"net/http"
	"net/http/httptest"
	"testing"
	"time"

	"github.com/0xReLogic/Helios/internal/config"
)

func TestVerifDemoFlushDeclared(t *testing.T) {
	release := make(chan struct{})
	be := httptest.NewServer(http.HandlerFunc(func(w http.ResponseWriter, r *http.Request) {
		w.Header().Set("Content-Type", "application/json")
		w.Header().Set("Content-Length", "20")
		_, _ = w.Write([]byte("0123456789"))
		w.(http.Flusher).Flush()
		<-release
		_, _ = w.Write([]byte("0123456789"))
	}))
	defer be.Close()
	cfg := &config.Config{}
	cfg.LoadBalancer.Strategy = "round_robin"
	cfg.Backends = []config.BackendConfig{{Name: "b0", Address: be.URL}}
	lb, _ := NewLoadBalancer(cfg)
	defer lb.Stop()
	front := httptest.NewServer(lb)
	defer front.Close()
	got := make(chan string, 1)
	go func() {
		resp, err := http.Get(front.URL + "/progress")
		if err != nil {
			got <- "error: " + err.Error()
			return
		}
		defer resp.Body.Close()
		buf := make([]byte, 10)
		_, _ = io.ReadFull(resp.Body, buf)
		got <- string(buf)
	}()
	select {
	case s := <-got:
		if s != "0123456789" {
			t.Fatalf("unexpected first bytes %q", s)
		}
	case <-time.After(time.Second):
		close(release)
		t.Fatal("the 10 bytes the backend flushed did not reach the client while the response was still open")
	}
	close(release)
}
