package loadbalancer

// Demonstration (C05): the smooth-WRR running weights survive membership changes.
// Pool {A:1, B:100}: after 50 picks A has accumulated a large running weight; remove B,
// add C:1 -> the next 25 picks all go to A although A and C have equal weight
// (deviation 12.5 requests from the proportional share; the property's bound is 2).

import (
	"net/url"
	"testing"
)

func TestVerifDemoWRRStaleWeights(t *testing.T) {
	wrr := NewWeightedRoundRobinStrategy()
	a := &Backend{Name: "A", URL: &url.URL{}, Weight: 1, IsHealthy: true}
	b := &Backend{Name: "B", URL: &url.URL{}, Weight: 100, IsHealthy: true}
	c := &Backend{Name: "C", URL: &url.URL{}, Weight: 1, IsHealthy: true}
	wrr.AddBackend(a)
	wrr.AddBackend(b)
	for i := 0; i < 50; i++ {
		wrr.NextBackend(nil)
	}
	wrr.RemoveBackend(b)
	wrr.AddBackend(c)
	na := 0
	for i := 0; i < 24; i++ {
		if wrr.NextBackend(nil) == a {
			na++
		}
	}
	if na > 12+2 || na < 12-2 {
		t.Fatalf("A got %d of 24 picks with weights A:1 C:1", na)
	}
}
