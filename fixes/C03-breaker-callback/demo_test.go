package circuitbreaker

// Demonstration (C03/C08): the state-change callback runs while the breaker's write lock
// is held; a callback that reads the breaker (as Helios' own callback does through
// Counts()) deadlocks the request that tripped the breaker — and every later request.

import (
	"errors"
	"testing"
	"time"
)

func TestVerifDemoCallbackDeadlock(t *testing.T) {
	var cb *CircuitBreaker
	cb = NewCircuitBreaker(Settings{Name: "d", FailureThreshold: 1, Timeout: time.Second,
		OnStateChange: func(string, State, State) { cb.Counts() }})
	done := make(chan struct{})
	go func() {
		_ = cb.Execute(func() error { return errors.New("boom") })
		close(done)
	}()
	select {
	case <-done:
	case <-time.After(2 * time.Second):
		t.Fatal("Execute never returned: state-change callback deadlocked on the breaker lock")
	}
}
