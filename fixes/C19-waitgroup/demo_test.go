package loadbalancer

// Demonstration (C19/C12), run with -race: Stop() waits on healthCheckWg while the ticker
// goroutine may still be inside checkBackendsHealth calling healthCheckWg.Add(1) from a
// zero counter - WaitGroup misuse that the race detector reports (and that lets Stop
// return while probe goroutines are still being started).

import (
	"fmt"
	"net/http"
	"net/http/httptest"
	"testing"
	"time"

	"github.com/0xReLogic/Helios/internal/config"
)

func TestVerifDemoStopRace(t *testing.T) {
	be := httptest.NewServer(http.HandlerFunc(func(w http.ResponseWriter, r *http.Request) { time.Sleep(20 * time.Millisecond) }))
	defer be.Close()
	for i := 0; i < 20; i++ {
		cfg := &config.Config{}
		cfg.LoadBalancer.Strategy = "round_robin"
		for j := 0; j < 8; j++ {
			cfg.Backends = append(cfg.Backends, config.BackendConfig{Name: fmt.Sprintf("b%d", j), Address: be.URL})
		}
		cfg.HealthChecks.Active = config.ActiveHealthCheckConfig{Enabled: true, Interval: 5, Timeout: 1, Path: "/"}
		lb, _ := NewLoadBalancer(cfg)
		time.Sleep(2 * time.Millisecond) // the initial probes are in flight
		lb.Stop()
	}
}
