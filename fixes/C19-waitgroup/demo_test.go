package loadbalancer

// Demonstration (C19/C12): Stop() waits on healthCheckWg while the ticker goroutine may
// still be inside checkBackendsHealth calling healthCheckWg.Add(1). When the counter drops
// to zero with Stop waiting and the fan-out then adds the next probe, sync.WaitGroup panics
// ("WaitGroup misuse: Add called concurrently with Wait" / "WaitGroup is reused before
// previous Wait has returned") and takes the process down during shutdown.

import (
	"fmt"
	"net/http"
	"net/http/httptest"
	"testing"
	"time"

	"github.com/0xReLogic/Helios/internal/config"
	"github.com/0xReLogic/Helios/internal/logging"
)

func TestVerifDemoStopRace(t *testing.T) {
	be := httptest.NewServer(http.HandlerFunc(func(w http.ResponseWriter, r *http.Request) {}))
	defer be.Close()
	logging.Init(config.LoggingConfig{Level: "fatal"})
	for i := 0; i < 30000; i++ {
		cfg := &config.Config{}
		cfg.LoadBalancer.Strategy = "round_robin"
		for j := 0; j < 40; j++ {
			cfg.Backends = append(cfg.Backends, config.BackendConfig{Name: fmt.Sprintf("b%d", j), Address: be.URL})
		}
		cfg.HealthChecks.Active = config.ActiveHealthCheckConfig{Enabled: true, Interval: 5, Timeout: 1, Path: "/"}
		lb, err := NewLoadBalancer(cfg)
		if err != nil {
			t.Fatal(err)
		}
		time.Sleep(time.Duration(i%9) * 3 * time.Microsecond)
		lb.Stop()
	}
}
