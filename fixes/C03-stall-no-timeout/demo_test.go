package main

// Demonstration (C03): a backend sends the response header and part of the body, then stops
// sending. No configured timeout bounds the request: backend_read only covers the wait for
// the response header (ResponseHeaderTimeout), the server's write timeout only fails writes
// that are attempted, and the documented end-to-end `handler` timeout is validated but never
// applied. With every timeout set to 1 s the client is still waiting after 4 s.
//
// Run: copy into cmd/helios and `go test -run TestVerifDemoStall`.

import (
	"bufio"
	"fmt"
	"io"
	"net"
	"net/http"
	"testing"
	"time"

	"github.com/0xReLogic/Helios/internal/config"
	"github.com/0xReLogic/Helios/internal/loadbalancer"
)

func TestVerifDemoStall(t *testing.T) {
	be, err := net.Listen("tcp", "127.0.0.1:0")
	if err != nil {
		t.Fatal(err)
	}
	defer be.Close()
	go func() {
		for {
			c, err := be.Accept()
			if err != nil {
				return
			}
			go func(c net.Conn) {
				defer c.Close()
				_, _ = http.ReadRequest(bufio.NewReader(c))
				_, _ = io.WriteString(c, "HTTP/1.1 200 OK\r\nContent-Length: 100\r\nContent-Type: text/plain\r\n\r\n0123456789")
				time.Sleep(10 * time.Second) // stalls mid-body
			}(c)
		}
	}()
	cfg := &config.Config{}
	cfg.LoadBalancer.Strategy = "round_robin"
	cfg.Backends = []config.BackendConfig{{Name: "b0", Address: "http://" + be.Addr().String()}}
	cfg.Server.Timeouts = config.TimeoutConfig{Read: 1, Write: 1, Idle: 1, Handler: 1, Shutdown: 1, BackendDial: 1, BackendRead: 1, BackendIdle: 1}
	lb, err := loadbalancer.NewLoadBalancer(cfg)
	if err != nil {
		t.Fatal(err)
	}
	defer lb.Stop()
	h, err := buildHandler(cfg, lb)
	if err != nil {
		t.Fatal(err)
	}
	srv := createHTTPServer(cfg, h)
	ln, err := net.Listen("tcp", "127.0.0.1:0")
	if err != nil {
		t.Fatal(err)
	}
	go func() { _ = srv.Serve(ln) }()
	defer srv.Close()

	c, err := net.DialTimeout("tcp", ln.Addr().String(), time.Second)
	if err != nil {
		t.Fatal(err)
	}
	defer c.Close()
	_ = c.SetDeadline(time.Now().Add(4 * time.Second))
	t0 := time.Now()
	fmt.Fprintf(c, "GET /x HTTP/1.1\r\nHost: x\r\nConnection: close\r\n\r\n")
	resp, err := http.ReadResponse(bufio.NewReader(c), nil)
	if err == nil {
		_, err = io.Copy(io.Discard, resp.Body)
	}
	d := time.Since(t0)
	if ne, ok := err.(net.Error); ok && ne.Timeout() {
		t.Fatalf("the request was still open after %v although every configured timeout is 1 s", d.Round(100*time.Millisecond))
	}
	if d > 2500*time.Millisecond {
		t.Fatalf("the request ended only after %v (timeouts: 1 s)", d)
	}
}
