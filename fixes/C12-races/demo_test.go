package loadbalancer

// Demonstration (C12), run with -race: (a) ListBackends reads the atomically updated
// in-flight gauge with a plain load while requests are in flight; (b) two concurrent
// /metrics readers both write Metrics.Uptime while holding only the read lock.

import (
	"net/http"
	"net/http/httptest"
	"sync"
	"testing"

	"github.com/0xReLogic/Helios/internal/config"
)

func TestVerifDemoRaces(t *testing.T) {
	be := httptest.NewServer(http.HandlerFunc(func(w http.ResponseWriter, r *http.Request) {}))
	defer be.Close()
	cfg := &config.Config{}
	cfg.LoadBalancer.Strategy = "least_connections"
	cfg.Backends = []config.BackendConfig{{Name: "b0", Address: be.URL}}
	lb, _ := NewLoadBalancer(cfg)
	var wg sync.WaitGroup
	for g := 0; g < 4; g++ {
		wg.Add(3)
		go func() {
			defer wg.Done()
			for i := 0; i < 50; i++ {
				lb.ServeHTTP(httptest.NewRecorder(), httptest.NewRequest("GET", "/", nil))
			}
		}()
		go func() {
			defer wg.Done()
			for i := 0; i < 200; i++ {
				_ = lb.ListBackends()
			}
		}()
		go func() {
			defer wg.Done()
			for i := 0; i < 200; i++ {
				_ = lb.GetMetricsCollector().GetMetrics()
			}
		}()
	}
	wg.Wait()
}
