package loadbalancer

// Demonstration (C13/C03): (a) a request answered "no healthy backend" (503) is counted in
// total_requests but in none of successful/failed/rate-limited; (b) a backend that resets
// the connection mid-body makes ReverseProxy abort the handler (panic), and the in-flight
// gauge of that backend is never decremented, nor is the request counted as failed.

import (
	"io"
	"net/http"
	"net/http/httptest"
	"testing"
	"time"

	"github.com/0xReLogic/Helios/internal/config"
)

func TestVerifDemoAccounting(t *testing.T) {
	t.Run("no_healthy_backend_not_counted", func(t *testing.T) {
		be := httptest.NewServer(http.HandlerFunc(func(w http.ResponseWriter, r *http.Request) {}))
		defer be.Close()
		cfg := &config.Config{}
		cfg.LoadBalancer.Strategy = "round_robin"
		cfg.Backends = []config.BackendConfig{{Name: "b0", Address: be.URL}}
		lb, _ := NewLoadBalancer(cfg)
		lb.MarkBackendUnhealthy(lb.strategy.GetBackends()[0], time.Hour)
		rec := httptest.NewRecorder()
		lb.ServeHTTP(rec, httptest.NewRequest("GET", "/", nil))
		m := lb.GetMetricsCollector().GetMetrics()
		if rec.Code != 503 || m.TotalRequests != m.SuccessfulRequests+m.FailedRequests+m.RateLimitedRequests {
			t.Fatalf("status %d total=%d ok=%d failed=%d limited=%d", rec.Code, m.TotalRequests, m.SuccessfulRequests, m.FailedRequests, m.RateLimitedRequests)
		}
	})
	t.Run("abort_mid_body_leaks_gauge", func(t *testing.T) {
		be := httptest.NewServer(http.HandlerFunc(func(w http.ResponseWriter, r *http.Request) {
			w.Header().Set("Content-Length", "1000")
			w.WriteHeader(200)
			_, _ = w.Write([]byte("partial"))
			w.(http.Flusher).Flush()
			c, _, _ := w.(http.Hijacker).Hijack()
			_ = c.Close()
		}))
		defer be.Close()
		cfg := &config.Config{}
		cfg.LoadBalancer.Strategy = "round_robin"
		cfg.Backends = []config.BackendConfig{{Name: "b0", Address: be.URL}}
		lb, _ := NewLoadBalancer(cfg)
		front := httptest.NewServer(lb)
		defer front.Close()
		for i := 0; i < 3; i++ {
			resp, err := http.Get(front.URL + "/")
			if err == nil {
				_, _ = io.Copy(io.Discard, resp.Body)
				resp.Body.Close()
			}
		}
		time.Sleep(50 * time.Millisecond)
		b := lb.strategy.GetBackends()[0]
		m := lb.GetMetricsCollector().GetMetrics()
		if g := b.GetActiveConnections(); g != 0 || m.TotalRequests != m.SuccessfulRequests+m.FailedRequests+m.RateLimitedRequests {
			t.Fatalf("gauge=%d after quiescence; total=%d ok=%d failed=%d", g, m.TotalRequests, m.SuccessfulRequests, m.FailedRequests)
		}
	})
}
