// Demonstration (copy into internal/loadbalancer/): values that configuration validation accepts
// wrap around when the balancer converts them (uint32 counts, seconds -> time.Duration), and the
// feature then behaves unlike anything that was configured.
//   - C08: max_requests 2^32+1 becomes 1 < success_threshold: the breaker can never close again.
//   - C07: interval_seconds beyond the Duration range becomes negative: the failure count is
//     cleared before every request and the breaker never trips.
//   - C04: unhealthy_timeout beyond the Duration range becomes negative: an ejection ends before
//     it starts and the failing backend keeps receiving traffic.
// On the repaired tree validation rejects these values, which the test accepts as well.
package loadbalancer

import (
	"errors"
	"net/http"
	"net/http/httptest"
	"testing"
	"time"

	"github.com/0xReLogic/Helios/internal/circuitbreaker"
	"github.com/0xReLogic/Helios/internal/config"
)

func wrapCfg(addr string) *config.Config {
	cfg := &config.Config{}
	cfg.Server.Port = 8080
	cfg.Backends = []config.BackendConfig{{Name: "b0", Address: addr, Weight: 1}}
	cfg.LoadBalancer.Strategy = "round_robin"
	return cfg
}

func TestAcceptedValuesWrap_MaxRequests(t *testing.T) {
	be := httptest.NewServer(http.HandlerFunc(func(w http.ResponseWriter, r *http.Request) {}))
	defer be.Close()
	cfg := wrapCfg(be.URL)
	cfg.CircuitBreaker = config.CircuitBreakerConfig{Enabled: true, MaxRequests: 1<<32 + 1, IntervalSeconds: 60,
		TimeoutSeconds: 1, FailureThreshold: 2, SuccessThreshold: 5}
	if err := cfg.Validate(); err != nil {
		t.Logf("rejected by validation (repaired tree): %v", err)
		return
	}
	lb, err := NewLoadBalancer(cfg)
	if err != nil {
		t.Fatal(err)
	}
	defer lb.Stop()
	cb := lb.circuitBreaker
	fail := errors.New("x")
	_ = cb.Execute(func() error { return fail })
	_ = cb.Execute(func() error { return fail })
	if cb.State() != circuitbreaker.StateOpen {
		t.Fatalf("breaker did not open: %v", cb.State())
	}
	time.Sleep(1200 * time.Millisecond)
	admitted := 0
	for i := 0; i < 200; i++ {
		if cb.Execute(func() error { return nil }) == nil {
			admitted++
		}
	}
	if cb.State() != circuitbreaker.StateClosed {
		t.Fatalf("accepted config (max_requests=2^32+1, success_threshold=5): after the timeout and 200 requests that would succeed, %d were admitted and the breaker is %v — it can never close", admitted, cb.State())
	}
}

func TestAcceptedValuesWrap_Interval(t *testing.T) {
	be := httptest.NewServer(http.HandlerFunc(func(w http.ResponseWriter, r *http.Request) {}))
	defer be.Close()
	cfg := wrapCfg(be.URL)
	cfg.CircuitBreaker = config.CircuitBreakerConfig{Enabled: true, MaxRequests: 1, IntervalSeconds: 9223372037,
		TimeoutSeconds: 1, FailureThreshold: 3, SuccessThreshold: 1}
	if err := cfg.Validate(); err != nil {
		t.Logf("rejected by validation (repaired tree): %v", err)
		return
	}
	lb, err := NewLoadBalancer(cfg)
	if err != nil {
		t.Fatal(err)
	}
	defer lb.Stop()
	cb := lb.circuitBreaker
	fail := errors.New("x")
	for i := 0; i < 20; i++ {
		_ = cb.Execute(func() error { return fail })
		time.Sleep(time.Millisecond)
	}
	if cb.State() != circuitbreaker.StateOpen {
		t.Fatalf("accepted config (interval_seconds=9223372037, failure_threshold=3): 20 consecutive failures and the breaker is %v", cb.State())
	}
}

func TestAcceptedValuesWrap_UnhealthyTimeout(t *testing.T) {
	hits := 0
	be := httptest.NewServer(http.HandlerFunc(func(w http.ResponseWriter, r *http.Request) {
		hits++
		w.WriteHeader(500)
	}))
	defer be.Close()
	ok := httptest.NewServer(http.HandlerFunc(func(w http.ResponseWriter, r *http.Request) {}))
	defer ok.Close()
	cfg := wrapCfg(be.URL)
	cfg.Backends = append(cfg.Backends, config.BackendConfig{Name: "b1", Address: ok.URL, Weight: 1})
	cfg.HealthChecks.Passive = config.PassiveHealthCheckConfig{Enabled: true, UnhealthyThreshold: 2, UnhealthyTimeout: 9223372037}
	if err := cfg.Validate(); err != nil {
		t.Logf("rejected by validation (repaired tree): %v", err)
		return
	}
	lb, err := NewLoadBalancer(cfg)
	if err != nil {
		t.Fatal(err)
	}
	defer lb.Stop()
	for i := 0; i < 40; i++ {
		rec := httptest.NewRecorder()
		lb.ServeHTTP(rec, httptest.NewRequest("GET", "/", nil))
	}
	if hits > 4 {
		t.Fatalf("accepted config (unhealthy_threshold=2, unhealthy_timeout=9223372037): the failing backend was offered %d of 40 requests; it is never kept out", hits)
	}
}
