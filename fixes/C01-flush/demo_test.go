package loadbalancer

// Demonstration (C01): the status-capturing responseWriter hides http.Flusher from
// ReverseProxy, so bytes a backend flushes (server-sent events) are not forwarded until
// the response ends.

import (
	"bufio"
	"net/http"
	"net/http/httptest"
	"testing"
	"time"

	"github.com/0xReLogic/Helios/internal/config"
)

func TestVerifDemoStreaming(t *testing.T) {
	release := make(chan struct{})
	be := httptest.NewServer(http.HandlerFunc(func(w http.ResponseWriter, r *http.Request) {
		w.Header().Set("Content-Type", "text/event-stream")
		_, _ = w.Write([]byte("data: first\n\n"))
		w.(http.Flusher).Flush()
		<-release
		_, _ = w.Write([]byte("data: last\n\n"))
	}))
	defer be.Close()
	cfg := &config.Config{}
	cfg.LoadBalancer.Strategy = "round_robin"
	cfg.Backends = []config.BackendConfig{{Name: "b0", Address: be.URL}}
	lb, _ := NewLoadBalancer(cfg)
	front := httptest.NewServer(lb)
	defer front.Close()
	got := make(chan string, 1)
	go func() {
		resp, err := http.Get(front.URL + "/events")
		if err != nil {
			got <- "error: " + err.Error()
			return
		}
		defer resp.Body.Close()
		line, _ := bufio.NewReader(resp.Body).ReadString('\n')
		got <- line
	}()
	select {
	case l := <-got:
		if l != "data: first\n" {
			t.Fatalf("unexpected first line %q", l)
		}
	case <-time.After(time.Second):
		close(release)
		t.Fatal("the flushed first event did not reach the client while the response was still open")
	}
	close(release)
}
