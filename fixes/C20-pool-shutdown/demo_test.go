package loadbalancer

// Demonstration (C20/C19): a connection returned to the WebSocket pool after (or racing
// with) Shutdown is kept open in a pool nobody will ever close again.

import (
	"net"
	"testing"
	"time"
)

type demoConn struct {
	net.Conn
	closed bool
}

func (c *demoConn) Close() error { c.closed = true; return nil }

func TestVerifDemoPoolPutAfterShutdown(t *testing.T) {
	p := NewWebSocketPool(2, 10, time.Minute)
	p.Shutdown()
	c := &demoConn{}
	kept := p.Put("b1", c)
	if kept || !c.closed {
		t.Fatalf("Put after Shutdown: kept=%v closed=%v - the connection is leaked open", kept, c.closed)
	}
}
