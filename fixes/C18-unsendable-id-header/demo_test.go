package main

// Demonstration for C18 / C16 (copy into cmd/helios/): logging.request_id.header (or logging.trace.header)
// set to a text that is not an HTTP header field name, e.g. "X Request ID". The configuration is accepted,
// the proxy starts, and every proxied request is answered 502 ("net/http: invalid header field name") although
// the backend is fine: accepted and started, yet not a working proxy. After the fix start-up fails with an
// error that names the header.
//
//	go test ./cmd/helios -run TestVerifUnsendableIDHeader

import (
	"io"
	"net/http"
	"net/http/httptest"
	"testing"

	"github.com/0xReLogic/Helios/internal/config"
	"github.com/0xReLogic/Helios/internal/loadbalancer"
)

func TestVerifUnsendableIDHeader(t *testing.T) {
	be := httptest.NewServer(http.HandlerFunc(func(w http.ResponseWriter, r *http.Request) { io.WriteString(w, "hi") }))
	defer be.Close()
	for _, name := range []string{"X-Request-ID", "X.Req.Id", "X Request ID", "X:Y", "a/b"} {
		cfg := &config.Config{}
		cfg.Server.Port = 8080
		cfg.Backends = []config.BackendConfig{{Name: "b", Address: be.URL, Weight: 1}}
		cfg.LoadBalancer.Strategy = "round_robin"
		cfg.Logging.RequestID.Enabled = true
		cfg.Logging.RequestID.Header = name
		if err := cfg.Validate(); err != nil {
			t.Errorf("%q: rejected by Validate: %v", name, err)
			continue
		}
		lb, err := loadbalancer.NewLoadBalancer(cfg)
		if err != nil {
			t.Logf("%q: does not start: %v", name, err)
			continue
		}
		h, err := buildHandler(cfg, lb)
		if err != nil {
			t.Logf("%q: does not start: %v", name, err) // a clear error: fine
			lb.Stop()
			continue
		}
		fe := httptest.NewServer(h)
		resp, err := http.Get(fe.URL + "/")
		if err != nil {
			t.Errorf("%q: started, request failed: %v", name, err)
		} else {
			if resp.StatusCode != 200 {
				t.Errorf("%q: accepted and started, but a request to a healthy backend is answered %d", name, resp.StatusCode)
			}
			resp.Body.Close()
		}
		fe.Close()
		lb.Stop()
	}
}
