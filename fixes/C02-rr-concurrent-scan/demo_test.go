package loadbalancer

// Demonstration (C02, concurrent pickers): round_robin advances one shared counter per probe of
// its scan. With two backends, one of them ejected, two concurrent callers can interleave their
// increments so that one caller lands on the ejected index in both of its probes and returns
// nil - the request is answered 503 although a healthy backend exists the whole time.
//
// Run: copy into internal/loadbalancer and `go test -run TestVerifDemoRRConcurrentScan`.

import (
	"net/http/httptest"
	"sync"
	"sync/atomic"
	"testing"
	"time"
)

func TestVerifDemoRRConcurrentScan(t *testing.T) {
	rr := NewRoundRobinStrategy()
	a := &Backend{Name: "a", IsHealthy: true}
	b := &Backend{Name: "b", IsHealthy: false, UnhealthyUntil: time.Now().Add(time.Hour)}
	rr.AddBackend(a)
	rr.AddBackend(b)
	var nils int64
	var wg sync.WaitGroup
	for g := 0; g < 8; g++ {
		wg.Add(1)
		go func() {
			defer wg.Done()
			req := httptest.NewRequest("GET", "/", nil)
			for i := 0; i < 200000; i++ {
				if rr.NextBackend(req) == nil {
					atomic.AddInt64(&nils, 1)
				}
			}
		}()
	}
	wg.Wait()
	if nils > 0 {
		t.Fatalf("%d of 1600000 picks found no backend although backend a was healthy throughout", nils)
	}
}
