package loadbalancer

// Demonstration (C01): the per-backend http.Transport is built with DisableCompression:
// false, so for a client that sent no Accept-Encoding the transport adds
// "Accept-Encoding: gzip" to the backend request and transparently gunzips the answer:
// the backend sees a header the client never sent, and a backend response labelled
// Content-Encoding: gzip reaches the client re-coded (or, if it is not valid gzip, not at all).
//
// Run: copy into internal/loadbalancer and `go test -run TestVerifDemoAcceptEncoding`.

import (
	"bytes"
	"compress/gzip"
	"io"
	"net/http"
	"net/http/httptest"
	"testing"

	"github.com/0xReLogic/Helios/internal/config"
)

func TestVerifDemoAcceptEncoding(t *testing.T) {
	var zipped bytes.Buffer
	zw := gzip.NewWriter(&zipped)
	_, _ = zw.Write([]byte("hello hello hello"))
	_ = zw.Close()
	seen := make(chan string, 1)
	be := httptest.NewServer(http.HandlerFunc(func(w http.ResponseWriter, r *http.Request) {
		seen <- r.Header.Get("Accept-Encoding")
		// this origin always answers pre-compressed content
		w.Header().Set("Content-Encoding", "gzip")
		_, _ = w.Write(zipped.Bytes())
	}))
	defer be.Close()
	cfg := &config.Config{}
	cfg.LoadBalancer.Strategy = "round_robin"
	cfg.Backends = []config.BackendConfig{{Name: "b0", Address: be.URL}}
	lb, _ := NewLoadBalancer(cfg)
	defer lb.Stop()
	front := httptest.NewServer(lb)
	defer front.Close()

	// a client that sends no Accept-Encoding and does not decode anything itself
	tr := &http.Transport{DisableCompression: true}
	req, _ := http.NewRequest("GET", front.URL+"/x", nil)
	resp, err := tr.RoundTrip(req)
	if err != nil {
		t.Fatal(err)
	}
	body, _ := io.ReadAll(resp.Body)
	resp.Body.Close()
	if ae := <-seen; ae != "" {
		t.Errorf("backend received Accept-Encoding %q although the client sent none", ae)
	}
	if resp.Header.Get("Content-Encoding") != "gzip" || !bytes.Equal(body, zipped.Bytes()) {
		t.Errorf("client did not receive what the backend produced: Content-Encoding=%q, %d bytes (backend sent gzip, %d bytes)",
			resp.Header.Get("Content-Encoding"), len(body), zipped.Len())
	}
}
