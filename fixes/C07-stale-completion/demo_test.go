package circuitbreaker

// Demonstration (C07): a request admitted while the breaker was closed and finishing
// during half-open is counted as a successful trial, so the breaker closes although no
// trial request has succeeded.

import (
	"errors"
	"testing"
	"time"
)

func TestVerifDemoStaleCompletion(t *testing.T) {
	cb := NewCircuitBreaker(Settings{Name: "d", FailureThreshold: 1, SuccessThreshold: 1,
		MaxRequests: 1, Timeout: 5 * time.Millisecond})
	slowRelease, slowDone := make(chan struct{}), make(chan struct{})
	slowIn := make(chan struct{})
	go func() { // admitted while closed
		_ = cb.Execute(func() error { close(slowIn); <-slowRelease; return nil })
		close(slowDone)
	}()
	<-slowIn
	_ = cb.Execute(func() error { return errors.New("boom") }) // opens
	time.Sleep(10 * time.Millisecond)
	trialIn, trialRelease, trialDone := make(chan struct{}), make(chan struct{}), make(chan struct{})
	go func() { // the only trial; still in flight below
		_ = cb.Execute(func() error { close(trialIn); <-trialRelease; return nil })
		close(trialDone)
	}()
	<-trialIn
	close(slowRelease) // the old request completes successfully
	<-slowDone
	st := cb.State()
	close(trialRelease)
	<-trialDone
	if st == StateClosed {
		t.Fatal("breaker closed while its only trial request was still in flight")
	}
}
