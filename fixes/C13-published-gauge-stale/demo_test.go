package loadbalancer

// Demonstration (C13): the in-flight gauge published to the metrics is written as
// "change the atomic counter, load it, store the loaded value under the metrics lock". Two
// requests finishing together can store in the wrong order (1 after 0), so with nothing in
// flight the metrics keep reporting active_connections = 1 (until the next request).
//
// Run: copy into internal/loadbalancer and `go test -run TestVerifDemoPublishedGauge`.

import (
	"net/http"
	"net/http/httptest"
	"sync"
	"testing"

	"github.com/0xReLogic/Helios/internal/config"
	"github.com/0xReLogic/Helios/internal/logging"
)

func TestVerifDemoPublishedGauge(t *testing.T) {
	logging.Init(config.LoggingConfig{Level: "fatal", Format: "json"})
	be := httptest.NewServer(http.HandlerFunc(func(w http.ResponseWriter, r *http.Request) { w.WriteHeader(204) }))
	defer be.Close()
	cfg := &config.Config{}
	cfg.LoadBalancer.Strategy = "round_robin"
	cfg.Backends = []config.BackendConfig{{Name: "b0", Address: be.URL}}
	lb, err := NewLoadBalancer(cfg)
	if err != nil {
		t.Fatal(err)
	}
	defer lb.Stop()
	for round := 0; round < 6000; round++ {
		var wg sync.WaitGroup
		for g := 0; g < 48; g++ {
			wg.Add(1)
			go func() {
				defer wg.Done()
				for i := 0; i < 3; i++ {
					lb.ServeHTTP(httptest.NewRecorder(), httptest.NewRequest("GET", "/", nil))
				}
			}()
		}
		wg.Wait()
		// idle now: the real gauge is zero
		if got := lb.ListBackends()[0].ActiveConnections; got != 0 {
			t.Fatalf("round %d: backend gauge %d while idle", round, got)
		}
		if bm := lb.GetMetricsCollector().GetMetrics().BackendMetrics["b0"]; bm != nil && bm.ActiveConnections != 0 {
			t.Fatalf("round %d: metrics report active_connections=%d for b0 while nothing is in flight", round, bm.ActiveConnections)
		}
	}
}
