package logging

// Demonstration (C16): a client-supplied request ID ending in a Unicode space (here U+00A0,
// which HTTP header parsing keeps) is echoed to the client trimmed but forwarded to the
// backend untrimmed: the value the backend sees differs from the value the client gets.

import (
	"net/http"
	"net/http/httptest"
	"testing"

	"github.com/0xReLogic/Helios/internal/config"
)

func TestVerifDemoIDTrim(t *testing.T) {
	cfg := config.LoggingConfig{RequestID: config.RequestIDConfig{Enabled: true, Header: "X-Request-ID"}}
	var seen string
	h := RequestContextMiddleware(cfg)(http.HandlerFunc(func(w http.ResponseWriter, r *http.Request) {
		seen = r.Header.Get("X-Request-ID")
	}))
	req := httptest.NewRequest("GET", "/", nil)
	req.Header.Set("X-Request-ID", "abc ")
	rec := httptest.NewRecorder()
	h.ServeHTTP(rec, req)
	if got := rec.Header().Get("X-Request-ID"); got != seen || got != "abc " {
		t.Fatalf("client supplied %q; backend saw %q, client got %q", "abc ", seen, got)
	}
}
