package loadbalancer

// Demonstration (C04): an active probe that was already in flight when the backend got
// ejected (passively) marks it healthy again when it succeeds, although the unhealthy
// window has only just begun - the backend receives client traffic inside its window.

import (
	"net/http"
	"net/http/httptest"
	"testing"
	"time"

	"github.com/0xReLogic/Helios/internal/config"
)

func TestVerifDemoProbeUnejects(t *testing.T) {
	inProbe, release := make(chan struct{}), make(chan struct{})
	be := httptest.NewServer(http.HandlerFunc(func(w http.ResponseWriter, r *http.Request) {
		if r.URL.Path == "/health" {
			close(inProbe)
			<-release
		}
	}))
	defer be.Close()
	cfg := &config.Config{}
	cfg.LoadBalancer.Strategy = "round_robin"
	cfg.Backends = []config.BackendConfig{{Name: "b0", Address: be.URL}}
	cfg.HealthChecks.Passive = config.PassiveHealthCheckConfig{Enabled: true, UnhealthyThreshold: 1, UnhealthyTimeout: 3600}
	lb, _ := NewLoadBalancer(cfg)
	lb.healthChecks.activePath = "/health"
	lb.healthChecks.activeTimeout = 5 * time.Second
	b := lb.strategy.GetBackends()[0]
	done := make(chan struct{})
	go func() { lb.checkBackendHealth(b); close(done) }()
	<-inProbe
	lb.MarkBackendUnhealthy(b, time.Hour) // passive ejection while the probe is in flight
	close(release)
	<-done
	if lb.IsBackendHealthy(b) {
		t.Fatal("backend is offered traffic again inside its one-hour unhealthy window")
	}
}
