package loadbalancer

// Demonstration (C01): a backend declares Content-Length: 7, sends the header and then ends
// the response without a body byte. Directly, the client reads the status line and headers
// and then hits a short body. Through Helios, ReverseProxy aborts the handler while the
// header is still buffered: the connection closes before a single response byte, so the
// client learns neither the status nor the headers the backend produced.
//
// Run: copy into internal/loadbalancer and `go test -run TestVerifDemoAbortDropsHead`.

import (
	"bufio"
	"fmt"
	"net"
	"net/http"
	"net/http/httptest"
	"testing"
	"time"

	"github.com/0xReLogic/Helios/internal/config"
)

func TestVerifDemoAbortDropsHead(t *testing.T) {
	be := httptest.NewServer(http.HandlerFunc(func(w http.ResponseWriter, r *http.Request) {
		w.Header().Set("Content-Length", "7")
		w.Header().Set("Retry-After", "3")
		w.WriteHeader(503)
		w.(http.Flusher).Flush()
		// handler returns: net/http closes the connection, the body is short
	}))
	defer be.Close()
	cfg := &config.Config{}
	cfg.LoadBalancer.Strategy = "round_robin"
	cfg.Backends = []config.BackendConfig{{Name: "b0", Address: be.URL}}
	lb, _ := NewLoadBalancer(cfg)
	defer lb.Stop()
	front := httptest.NewServer(lb)
	defer front.Close()

	status := func(addr string) string {
		c, err := net.DialTimeout("tcp", addr, time.Second)
		if err != nil {
			return "dial: " + err.Error()
		}
		defer c.Close()
		_ = c.SetDeadline(time.Now().Add(3 * time.Second))
		fmt.Fprintf(c, "GET / HTTP/1.1\r\nHost: x\r\nConnection: close\r\n\r\n")
		resp, err := http.ReadResponse(bufio.NewReader(c), nil)
		if err != nil {
			return "no response: " + err.Error()
		}
		return fmt.Sprintf("%d retry-after=%s", resp.StatusCode, resp.Header.Get("Retry-After"))
	}
	direct := status(be.Listener.Addr().String())
	via := status(front.Listener.Addr().String())
	if direct != via {
		t.Fatalf("directly the client reads %q, through Helios %q", direct, via)
	}
}
