package plugins

// Demonstration (C15): the gzip writer forwards WriteHeader at once and edits the headers
// in Finish, after they were committed: whenever the handler calls WriteHeader itself (as
// httputil.ReverseProxy always does) the client receives gzip bytes labelled as identity
// with the original Content-Length. Already-encoded responses are compressed a second time.

import (
	"bytes"
	"io"
	"net/http"
	"net/http/httptest"
	"strings"
	"testing"

	"github.com/0xReLogic/Helios/internal/config"
)

func TestVerifDemoGzipHeaders(t *testing.T) {
	body := strings.Repeat("hello gzip ", 60)
	h := http.HandlerFunc(func(w http.ResponseWriter, r *http.Request) {
		w.Header().Set("Content-Type", "text/plain")
		w.Header().Set("Content-Length", "660")
		w.WriteHeader(200)
		_, _ = w.Write([]byte(body))
	})
	chain, err := BuildChain(config.PluginsConfig{Enabled: true, Chain: []config.PluginConfig{{Name: "gzip",
		Config: map[string]interface{}{"level": 6.0, "min_size": 100.0, "content_types": []interface{}{"text/plain"}}}}}, h)
	if err != nil {
		t.Fatal(err)
	}
	srv := httptest.NewServer(chain)
	defer srv.Close()
	req, _ := http.NewRequest("GET", srv.URL, nil)
	req.Header.Set("Accept-Encoding", "gzip")
	c := &http.Client{Transport: &http.Transport{DisableCompression: true}}
	resp, err := c.Do(req)
	if err != nil {
		t.Fatal(err)
	}
	raw, rerr := io.ReadAll(resp.Body)
	resp.Body.Close()
	isGz := bytes.HasPrefix(raw, []byte{0x1f, 0x8b})
	if isGz != (resp.Header.Get("Content-Encoding") == "gzip") || rerr != nil {
		t.Fatalf("Content-Encoding=%q Content-Length=%q, %d bytes received (gzip magic: %v), read error: %v",
			resp.Header.Get("Content-Encoding"), resp.Header.Get("Content-Length"), len(raw), isGz, rerr)
	}
}
