package adminapi

// Demonstration (C10): (a) the admin IP filter takes the client address from
// X-Forwarded-For / X-Real-IP first, so a peer outside the allow list gets in by forging
// the header; (b) a malformed list entry makes NewMux return the *unfiltered* API.

import (
	"net/http/httptest"
	"testing"

	"github.com/0xReLogic/Helios/internal/config"
	"github.com/0xReLogic/Helios/internal/loadbalancer"
)

func demoMux(t *testing.T, allow, deny []string) (*loadbalancer.LoadBalancer, *config.Config) {
	cfg := &config.Config{}
	cfg.LoadBalancer.Strategy = "round_robin"
	cfg.Backends = []config.BackendConfig{{Name: "b", Address: "http://127.0.0.1:1"}}
	cfg.AdminAPI = config.AdminAPIConfig{Enabled: true, Port: 9091, IPAllowList: allow, IPDenyList: deny}
	lb, err := loadbalancer.NewLoadBalancer(cfg)
	if err != nil {
		t.Fatal(err)
	}
	return lb, cfg
}

func TestVerifDemoIPFilter(t *testing.T) {
	t.Run("forged_header", func(t *testing.T) {
		lb, cfg := demoMux(t, []string{"10.0.0.0/8"}, nil)
		h := NewMux(lb, cfg, lb.GetMetricsCollector())
		req := httptest.NewRequest("GET", "/v1/backends", nil)
		req.RemoteAddr = "203.0.113.9:4444"
		req.Header.Set("X-Forwarded-For", "10.1.2.3")
		rec := httptest.NewRecorder()
		h.ServeHTTP(rec, req)
		if rec.Code != 403 {
			t.Fatalf("peer 203.0.113.9 outside allow list 10/8 got %d with a forged X-Forwarded-For", rec.Code)
		}
	})
	t.Run("malformed_entry_fails_open", func(t *testing.T) {
		lb, cfg := demoMux(t, []string{"10.0.0.0/8", "not-an-ip"}, nil)
		h := NewMux(lb, cfg, lb.GetMetricsCollector())
		req := httptest.NewRequest("GET", "/v1/backends", nil)
		req.RemoteAddr = "203.0.113.9:4444"
		rec := httptest.NewRecorder()
		h.ServeHTTP(rec, req)
		if rec.Code == 200 {
			t.Fatalf("malformed allow-list entry: peer outside the list was served (%d) - the API is unfiltered", rec.Code)
		}
	})
}
