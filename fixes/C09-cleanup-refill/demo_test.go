package ratelimiter

// Demonstration for the C09 defect "cleanup re-creates a full bucket": place in
// internal/ratelimiter/ and run `go test -run TestVerifDemoCleanupRefill`.
// With max_tokens=5 and a 1000 s refill period a client that has spent its burst is
// idle for just over an hour, the hourly cleanup deletes its bucket (only 3 tokens
// would have been refilled) and the client then gets a full burst of 5 again:
// 10 admissions in a 3601 s window against the bound 5 + floor(3601/1000) + 1 = 9.

import (
	"testing"
	"time"
)

func TestVerifDemoCleanupRefill(t *testing.T) {
	rl := &TokenBucketRateLimiter{maxTokens: 5, refillRate: 1000 * time.Second}
	admitted := 0
	for i := 0; i < 5; i++ {
		if rl.Allow("c") {
			admitted++
		}
	}
	// age the bucket by one hour and one second (white box: no wall-clock wait)
	v, _ := rl.buckets.Load("c")
	b := v.(*bucket)
	b.lastRefill = b.lastRefill.Add(-3601 * time.Second)
	rl.cleanup()
	for i := 0; i < 5; i++ {
		if rl.Allow("c") {
			admitted++
		}
	}
	if admitted > 9 {
		t.Fatalf("admitted %d requests in a 3601s window; token-bucket bound is 9", admitted)
	}
}
